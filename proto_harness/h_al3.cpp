#include "/repo/modules/alarm/alarm.cpp"
#include <deque>
extern "C" {
unsigned int nondet_uint() noexcept;
void __CPROVER_assume(bool) noexcept;
void __CPROVER_assert(bool, const char*) noexcept;
}
using namespace tbox;
static long long armed_ms = -1; static bool armed;
struct FakeTimer : event::TimerEvent {
    FakeTimer() : event::TimerEvent("t") {}
    CallbackFunc cb; long long span = 0; bool on = false;
    bool initialize(const std::chrono::milliseconds &t, Mode) override { span = t.count(); return true; }
    void setCallback(CallbackFunc &&c) override { cb = std::move(c); }
    bool isEnabled() const override { return on; }
    bool enable() override { on = true; armed = true; armed_ms = span; return true; }
    bool disable() override { on = false; return true; }
    event::Loop* getLoop() const override { return nullptr; }
};
struct FakeLoop : event::Loop {
    void runLoop(Mode) override {}  void exitLoop(const std::chrono::milliseconds &) override {}
    bool isInLoopThread() override { return true; } bool isRunning() const override { return true; }
    RunId runInLoop(Func &&, const std::string &) override { return 1; } RunId runInLoop(const Func &, const std::string &) override { return 1; }
    RunId runNext(Func &&, const std::string &) override { return 1; } RunId runNext(const Func &, const std::string &) override { return 1; }
    RunId run(Func &&, const std::string &) override { return 1; } RunId run(const Func &, const std::string &) override { return 1; }
    bool cancel(RunId) override { return false; }
    event::FdEvent* newFdEvent(const std::string &) override { return nullptr; }
    event::TimerEvent* newTimerEvent(const std::string &) override { return new FakeTimer; }
    event::SignalEvent* newSignalEvent(const std::string &) override { return nullptr; }
    event::Stat getStat() const override { return event::Stat(); } void resetStat() override {}
    WaterLine wl; WaterLine& water_line() override { return wl; } void cleanup() override {}
};
// any alarm kind: the next-instant computation is an arbitrary function obeying its contract (result > argument)
struct AnyAlarm : alarm::Alarm {
    using Alarm::Alarm;
    uint32_t delta;
    bool calculateNextLocalTimeSec(uint32_t cur, uint32_t &next) override { next = cur + delta; return true; }
    void init() { state_ = State::kInited; }
};
extern "C" void harness_alarm_wait() {
    FakeLoop loop; AnyAlarm a(&loop);
    a.setTimezone(0); a.init();
    a.delta = nondet_uint(); __CPROVER_assume(a.delta >= 1 && a.delta <= 4294967u);   // up to 400 days ahead
    __CPROVER_assert(a.enable(), "enable");
    __CPROVER_assert(armed, "timer armed");
    // the wall clock read inside activeTimer is the model's symbolic gettimeofday; remainSeconds() = target - now'
    // wait (ms) must not be shorter than (distance in s - 1) * 1000   (usec part < 1 s)
    __CPROVER_assert(armed_ms >= ((long long)a.delta - 1) * 1000, "wait is never shorter than the wall-clock distance");
}
