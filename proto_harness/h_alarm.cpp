#include <tbox/alarm/weekly_alarm.h>
#include <tbox/alarm/oneshot_alarm.h>
extern "C" {
unsigned int nondet_uint() noexcept;
void __CPROVER_assume(bool) noexcept;
void __CPROVER_assert(bool, const char*) noexcept;
}
using namespace tbox::alarm;
static bool matches(uint32_t t, int sod, uint8_t mask) {
    return (t % 86400u) == (uint32_t)sod && (mask & (1u << (((t / 86400u) + 4) % 7)));
}
extern "C" void harness_weekly() {
    // construct object state directly (no loop / timer needed for the pure computation)
    void *raw = ::operator new(sizeof(WeeklyAlarm));
    WeeklyAlarm *a = reinterpret_cast<WeeklyAlarm*>(raw);
    int sod = nondet_uint(); __CPROVER_assume(sod >= 0 && sod < 86400);
    uint8_t mask = nondet_uint(); __CPROVER_assume(mask < 128);
    a->seconds_of_day_ = sod; a->week_mask_ = mask;
    uint32_t now = nondet_uint();
    __CPROVER_assume(now < 0xffffffffu - 9 * 86400u);   // representable local time (no 2106 wrap)
    uint32_t next = 0;
    bool ok = a->WeeklyAlarm::calculateNextLocalTimeSec(now, next);
    if (mask == 0) { __CPROVER_assert(!ok, "empty mask never matches"); return; }
    __CPROVER_assert(ok, "non-empty mask always finds an instant");
    __CPROVER_assert(next > now, "strictly after now");
    __CPROVER_assert(matches(next, sod, mask), "instant satisfies configuration");
    uint32_t w = nondet_uint();                         // any earlier candidate
    __CPROVER_assume(w > now && w < next);
    __CPROVER_assert(!matches(w, sod, mask), "no earlier matching instant");
}
