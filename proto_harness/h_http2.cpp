#include "/repo/modules/http/server/request_parser.cpp"
#include "/repo/modules/http/common.cpp"
#include "/repo/modules/http/url.cpp"
#include "/repo/modules/util/string.cpp"
extern "C" {
unsigned long nondet_ulong() noexcept;
unsigned char nondet_uchar() noexcept;
void __CPROVER_assume(bool) noexcept;
void __CPROVER_assert(bool, const char*) noexcept;
void vp_global_ctors() noexcept;
extern int __vp_exc_active;
}
using namespace tbox::http::server;
extern "C" void harness_cl() {
    vp_global_ctors();
    char buf[] = "GET / HTTP/1.1\r\nContent-Length: XY\r\n\r\nab";
    buf[32] = nondet_uchar(); buf[33] = nondet_uchar();     // the two bytes of the Content-Length value
    __CPROVER_assume(buf[32] != '\r' && buf[32] != '\n' && buf[33] != '\r' && buf[33] != '\n');
    RequestParser p;
    size_t r = p.parse(buf, sizeof(buf) - 1);
#ifndef SYMIR
    __CPROVER_assert(!__vp_exc_active, "parse never throws");
#endif
    __CPROVER_assert(r <= sizeof(buf) - 1, "never consumes more than given");
}
