#include "h_alarm.cpp"
#include "/repo/modules/alarm/weekly_alarm.cpp"
