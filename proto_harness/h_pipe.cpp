#include "/repo/modules/util/async_pipe.cpp"
extern "C" {
unsigned long nondet_ulong() noexcept;
unsigned char nondet_uchar() noexcept;
void __CPROVER_assume(bool) noexcept;
void __CPROVER_assert(bool, const char*) noexcept;
}
using tbox::util::AsyncPipe;
static unsigned char sink[16]; static unsigned long sink_len; static int in_cb;
extern "C" void harness_pipe() {
    AsyncPipe pipe;
    AsyncPipe::Config cfg; cfg.buff_size = 2; cfg.buff_min_num = 1; cfg.buff_max_num = 1; cfg.interval = 1000;
    pipe.setCallback([](const void *p, size_t n) {
        __CPROVER_assert(in_cb == 0, "sink callbacks never overlap"); in_cb = 1;
        for (size_t i = 0; i < n; i++) sink[sink_len + i] = ((const unsigned char*)p)[i];
        sink_len += n; in_cb = 0; });
    pipe.initialize(cfg);
    unsigned char d[3] = { nondet_uchar(), nondet_uchar(), nondet_uchar() };
    pipe.append(d, 3);
    pipe.cleanup();
    __CPROVER_assert(sink_len == 3, "everything appended before cleanup is delivered");
    __CPROVER_assert(sink[0] == d[0] && sink[1] == d[1] && sink[2] == d[2], "in order");
}
