#include "/repo/modules/coroutine/scheduler.cpp"
#include <tbox/coroutine/channel.hpp>
#include <tbox/coroutine/mutex.hpp>
#include <deque>
extern "C" {
unsigned long nondet_ulong() noexcept;
bool nondet_bool() noexcept;
void __CPROVER_assume(bool) noexcept;
void __CPROVER_assert(bool, const char*) noexcept;
}
using namespace tbox; using namespace tbox::coroutine;
// minimal event::Loop: only runNext is used by the scheduler
struct FakeLoop : event::Loop {
    std::deque<Func> q;
    void runLoop(Mode) override {}  void exitLoop(const std::chrono::milliseconds &) override {}
    bool isInLoopThread() override { return true; } bool isRunning() const override { return true; }
    RunId runInLoop(Func &&f, const std::string &) override { q.push_back(std::move(f)); return 1; }
    RunId runInLoop(const Func &f, const std::string &) override { q.push_back(f); return 1; }
    RunId runNext(Func &&f, const std::string &) override { q.push_back(std::move(f)); return 1; }
    RunId runNext(const Func &f, const std::string &) override { q.push_back(f); return 1; }
    RunId run(Func &&f, const std::string &) override { q.push_back(std::move(f)); return 1; }
    RunId run(const Func &f, const std::string &) override { q.push_back(f); return 1; }
    bool cancel(RunId) override { return false; }
    event::FdEvent* newFdEvent(const std::string &) override { return nullptr; }
    event::TimerEvent* newTimerEvent(const std::string &) override { return nullptr; }
    event::SignalEvent* newSignalEvent(const std::string &) override { return nullptr; }
    event::Stat getStat() const override { return event::Stat(); } void resetStat() override {}
    WaterLine wl; WaterLine& water_line() override { return wl; } void cleanup() override {}
    void drain() { int guard = 0; while (!q.empty() && guard++ < 50) { Func f = std::move(q.front()); q.pop_front(); f(); } }
};
static int got[2]; static int done[2];
extern "C" void harness_chan() {
    FakeLoop loop; Scheduler sch(&loop);
    Channel<int> ch(sch);
    // two receivers block first, then one sender sends two values back to back
    for (int r = 0; r < 2; r++)
        sch.create([&ch, r](Scheduler &) { int v = 0; if (ch >> v) { got[r] = v; done[r] = 1; } }, true, "rx", 8192);
    sch.create([&ch](Scheduler &) { ch << 11; ch << 22; }, true, "tx", 8192);
    loop.drain();      // run until the scheduler has no ready routine left (idle)
    __CPROVER_assert(done[0] && done[1], "at idle no routine is left suspended on a non-empty channel");
    __CPROVER_assert(got[0] + got[1] == 33, "values delivered exactly once");
    sch.cleanup();
}
