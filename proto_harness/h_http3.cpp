#include "/repo/modules/http/server/request_parser.cpp"
#include "/repo/modules/http/common.cpp"
#include "/repo/modules/http/url.cpp"
#include "/repo/modules/util/string.cpp"
extern "C" {
unsigned char nondet_uchar() noexcept;
void __CPROVER_assume(bool) noexcept;
void __CPROVER_assert(bool, const char*) noexcept;
void vp_global_ctors() noexcept;
}
using namespace tbox::http;
extern "C" void harness_ctor() {
    vp_global_ctors();
#if VAR >= 1
    std::string s("GET");
    s[0] = nondet_uchar();
    Method m = StringToMethod(s);
    __CPROVER_assert(m == Method::kGet || s[0] != 'G', "get");
#endif
}
