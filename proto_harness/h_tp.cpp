#include "/repo/modules/eventx/thread_pool.cpp"
extern "C" {
unsigned long nondet_ulong() noexcept;
void __CPROVER_assume(bool) noexcept;
void __CPROVER_assert(bool, const char*) noexcept;
}
using tbox::eventx::ThreadPool;
extern "C" void harness_tp() {
    ThreadPool tp(nullptr);
    tp.initialize(1, 1);
    tp.cleanup();
}
