#include <tbox/base/cabinet.hpp>
extern "C" {
unsigned long nondet_ulong() noexcept;
void __CPROVER_assume(bool) noexcept;
void __CPROVER_assert(bool, const char*) noexcept;
}
using namespace tbox::cabinet;
#define NCELL 2
typedef Cabinet<int> Cab;
static int objs[NCELL + 2];
extern "C" void harness_cab() {
    Cab c;
    typedef Cab::Cell Cell;
    Cell mem[NCELL + 1];
    c.cells_._M_impl._M_start = mem;
    c.cells_._M_impl._M_finish = mem + NCELL;
    c.cells_._M_impl._M_end_of_storage = mem + NCELL + 1;
#if VAR >= 1
    for (size_t i = 0; i < NCELL; i++) {
        mem[i].id = nondet_ulong();
        __CPROVER_assume(mem[i].id != 0);
        mem[i].obj_ptr = &objs[i];
    }
    c.count_ = NCELL; c.last_id_ = nondet_ulong();
    __CPROVER_assume(mem[0].id != mem[1].id && mem[0].id <= c.last_id_ && mem[1].id <= c.last_id_ && c.last_id_ < 1000);
#endif
    Token t(nondet_ulong(), nondet_ulong());
    __CPROVER_assume(t.id() <= c.last_id_);
    bool t_live = !t.isNull() && t.pos() < NCELL && mem[t.pos()].id == t.id();
    int *t_obj = t_live ? mem[t.pos()].obj_ptr : nullptr;
    __CPROVER_assert(c.at(t) == t_obj, "lookup");
#if VAR >= 2
    int *r = c.free(t);
    __CPROVER_assert(r == t_obj, "free returns stored object");
    __CPROVER_assert(c.at(t) == nullptr, "freed token resolves to nothing");
#endif
#if VAR >= 3
    Token n = c.alloc(&objs[NCELL + 1]);
    __CPROVER_assert(c.at(t) == nullptr, "stale after reuse");
    __CPROVER_assert(c.at(n) == &objs[NCELL + 1], "reuse ok");
#endif
    c.cells_._M_impl._M_start = nullptr; c.cells_._M_impl._M_finish = nullptr; c.cells_._M_impl._M_end_of_storage = nullptr;
}
