#include "/repo/modules/util/buffer.cpp"
extern "C" {
unsigned long nondet_ulong();
unsigned char nondet_uchar();
void __CPROVER_assume(bool);
void __CPROVER_assert(bool, const char*);
}
using tbox::util::Buffer;
extern "C" void harness_append_fetch() {
    Buffer b(4);
    unsigned char in[4], out[4];
    for (int i=0;i<4;i++) in[i]=nondet_uchar();
    unsigned long n = nondet_ulong(); __CPROVER_assume(n<=4);
    b.append(in, n);
    unsigned long m = b.fetch(out, 4);
    __CPROVER_assert(m==n, "size");
    for (unsigned long i=0;i<n;i++) __CPROVER_assert(out[i]==in[i], "content");
}
