#include "/repo/modules/http/server/request_parser.cpp"
#include "/repo/modules/http/common.cpp"
#include "/repo/modules/http/url.cpp"
#include "/repo/modules/util/string.cpp"
extern "C" {
unsigned long nondet_ulong() noexcept;
unsigned char nondet_uchar() noexcept;
void __CPROVER_assume(bool) noexcept;
void __CPROVER_assert(bool, const char*) noexcept;
}
using namespace tbox::http::server;
#ifndef LEN
#define LEN 4
#endif
extern "C" void harness_parse_total() {
    char buf[LEN];
    for (int i = 0; i < LEN; i++) buf[i] = nondet_uchar();
    size_t n = nondet_ulong(); __CPROVER_assume(n <= LEN);
    RequestParser p;
    size_t r = p.parse(buf, n);
    __CPROVER_assert(r <= n, "never consumes more than given");
}
