#include "/repo/modules/crypto/md5.cpp"
extern "C" {
unsigned int nondet_uint() noexcept;
unsigned char nondet_uchar() noexcept;
void __CPROVER_assume(bool) noexcept;
void __CPROVER_assert(bool, const char*) noexcept;
void vp_sweep_record() noexcept; void vp_sweep_match() noexcept; void vp_sweep_off() noexcept;
}
// independent reference: RFC 1321 in loop form with the sine-derived table and per-round index/shift schedule
static const uint32_t K[64] = {
0xd76aa478,0xe8c7b756,0x242070db,0xc1bdceee,0xf57c0faf,0x4787c62a,0xa8304613,0xfd469501,0x698098d8,0x8b44f7af,0xffff5bb1,0x895cd7be,0x6b901122,0xfd987193,0xa679438e,0x49b40821,
0xf61e2562,0xc040b340,0x265e5a51,0xe9b6c7aa,0xd62f105d,0x02441453,0xd8a1e681,0xe7d3fbc8,0x21e1cde6,0xc33707d6,0xf4d50d87,0x455a14ed,0xa9e3e905,0xfcefa3f8,0x676f02d9,0x8d2a4c8a,
0xfffa3942,0x8771f681,0x6d9d6122,0xfde5380c,0xa4beea44,0x4bdecfa9,0xf6bb4b60,0xbebfbc70,0x289b7ec6,0xeaa127fa,0xd4ef3085,0x04881d05,0xd9d4d039,0xe6db99e5,0x1fa27cf8,0xc4ac5665,
0xf4292244,0x432aff97,0xab9423a7,0xfc93a039,0x655b59c3,0x8f0ccc92,0xffeff47d,0x85845dd1,0x6fa87e4f,0xfe2ce6e0,0xa3014314,0x4e0811a1,0xf7537e82,0xbd3af235,0x2ad7d2bb,0xeb86d391};
static const unsigned S[64] = {7,12,17,22,7,12,17,22,7,12,17,22,7,12,17,22,5,9,14,20,5,9,14,20,5,9,14,20,5,9,14,20,4,11,16,23,4,11,16,23,4,11,16,23,4,11,16,23,6,10,15,21,6,10,15,21,6,10,15,21,6,10,15,21};
static void ref_compress(uint32_t st[4], const uint8_t blk[64]) {
    uint32_t M[16];
    for (int i = 0; i < 16; i++) M[i] = blk[4*i] | (blk[4*i+1] << 8) | (blk[4*i+2] << 16) | ((uint32_t)blk[4*i+3] << 24);
    uint32_t A = st[0], B = st[1], C = st[2], D = st[3];
    for (unsigned i = 0; i < 64; i++) {
        uint32_t F; unsigned g;
        if (i < 16) { F = (B & C) | (~B & D); g = i; }
        else if (i < 32) { F = (D & B) | (~D & C); g = (5*i + 1) % 16; }
        else if (i < 48) { F = B ^ C ^ D; g = (3*i + 5) % 16; }
        else { F = C ^ (B | ~D); g = (7*i) % 16; }
        F = F + A + K[i] + M[g];
        A = D; D = C; C = B;
        B = B + ((F << S[i]) | (F >> (32 - S[i])));
    }
    st[0] += A; st[1] += B; st[2] += C; st[3] += D;
}
extern "C" void harness_md5_compress() {
    uint32_t s1[4], s2[4]; uint8_t blk[64];
    for (int i = 0; i < 4; i++) s1[i] = s2[i] = nondet_uint();
    for (int i = 0; i < 64; i++) blk[i] = nondet_uchar();
    vp_sweep_record(); ref_compress(s2, blk);
    vp_sweep_match();  tbox::crypto::Transform(s1, blk);
    vp_sweep_off();
    __CPROVER_assert(s1[0] == s2[0] && s1[1] == s2[1] && s1[2] == s2[2] && s1[3] == s2[3], "MD5 compression equals RFC 1321 reference");
}
