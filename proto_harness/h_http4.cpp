#include "/repo/modules/http/server/request_parser.cpp"
#include "/repo/modules/http/common.cpp"
#include "/repo/modules/http/url.cpp"
#include "/repo/modules/util/string.cpp"
extern "C" {
unsigned long nondet_ulong() noexcept;
unsigned char nondet_uchar() noexcept;
void __CPROVER_assume(bool) noexcept;
void __CPROVER_assert(bool, const char*) noexcept;
void vp_global_ctors() noexcept;
}
using namespace tbox::http::server;
extern "C" void harness_min() {
    vp_global_ctors();
    char buf[] = REQ;
    buf[0] = nondet_uchar();
    RequestParser p;
    size_t r = p.parse(buf, sizeof(buf) - 1);
    __CPROVER_assert(r <= sizeof(buf) - 1, "never consumes more than given");
    __CPROVER_assert(buf[0] != 'G' || p.state() == RequestParser::State::kFinishedAll, "parsed");
}
