#include <tbox/base/cabinet.hpp>
extern "C" {
unsigned long nondet_ulong() noexcept;
void __CPROVER_assume(bool) noexcept;
void __CPROVER_assert(bool, const char*) noexcept;
}
using namespace tbox::cabinet;
#ifndef SPARE
#define SPARE 1
#endif
#ifndef NCELL
#define NCELL 3
#endif
typedef Cabinet<int> Cab;
static const size_t NIL = (size_t)-1;
// representation invariant over a cabinet with exactly NCELL cells
static bool rep_inv(Cab &c) {
    if (c.cells_.size() != NCELL) return false;
    size_t live = 0;
    for (size_t i = 0; i < NCELL; i++) {
        auto &x = c.cells_[i];
        if (x.id != 0) {
            live++;
            if (x.id > c.last_id_) return false;
            for (size_t j = 0; j < i; j++) if (c.cells_[j].id == x.id) return false;
        }
    }
    if (live != c.count_) return false;
    // free list: visits each free cell exactly once
    bool seen[NCELL]; for (size_t i = 0; i < NCELL; i++) seen[i] = false;
    size_t p = c.first_free_; size_t nfree = 0;
    for (size_t k = 0; k < NCELL + 1; k++) {
        if (p == NIL) break;
        if (p >= NCELL) return false;
        if (c.cells_[p].id != 0) return false;
        if (seen[p]) return false;
        seen[p] = true; nfree++;
        p = c.cells_[p].next_free;
    }
    if (p != NIL) return false;
    return nfree + live == NCELL;
}
static int objs[NCELL + 2];
extern "C" void harness_cab() {
    Cab c;
    {   // build vector storage directly: size NCELL, capacity NCELL+SPARE
        typedef Cab::Cell Cell;
        Cell *mem = static_cast<Cell*>(::operator new(sizeof(Cell) * (NCELL + SPARE)));
        c.cells_._M_impl._M_start = mem;
        c.cells_._M_impl._M_finish = mem + NCELL;
        c.cells_._M_impl._M_end_of_storage = mem + NCELL + SPARE;
    }
    for (size_t i = 0; i < NCELL; i++) {
        c.cells_[i].id = nondet_ulong();
        size_t v = nondet_ulong();
        if (c.cells_[i].id == 0) c.cells_[i].next_free = v;
        else { __CPROVER_assume(v < NCELL + 2); c.cells_[i].obj_ptr = &objs[v]; }
    }
    c.last_id_ = nondet_ulong(); c.first_free_ = nondet_ulong(); c.count_ = nondet_ulong();
    __CPROVER_assume(c.last_id_ < ((size_t)-1) - 4);
    __CPROVER_assume(rep_inv(c));
    // an arbitrary token the client may hold: either live, or stale (id <= last_id_, not in any cell at that pos) or null
    Token t(nondet_ulong(), nondet_ulong());
    __CPROVER_assume(t.id() <= c.last_id_);
    bool t_live = !t.isNull() && t.pos() < NCELL && c.cells_[t.pos()].id == t.id();
    int *t_obj = t_live ? c.cells_[t.pos()].obj_ptr : nullptr;
    __CPROVER_assert(c.at(t) == t_obj, "lookup");
    size_t before = c.size();
    unsigned op = nondet_ulong();
    if (op == 0) {
        Token n = c.alloc(&objs[NCELL + 1]);
        __CPROVER_assert(!n.isNull() && c.at(n) == &objs[NCELL + 1], "new token resolves");
        __CPROVER_assert(!n.equal(t), "fresh token differs from any old token");
        __CPROVER_assert(c.at(t) == t_obj, "old token unaffected by alloc");
        __CPROVER_assert(c.size() == before + 1, "size+1");
    } else if (op == 1) {
        int *r = c.free(t);
        __CPROVER_assert(r == t_obj, "free returns stored object");
        __CPROVER_assert(c.at(t) == nullptr, "freed token resolves to nothing");
        __CPROVER_assert(c.size() == before - (t_live ? 1 : 0), "size-1");
        Token n = c.alloc(&objs[NCELL + 1]);   // slot reuse
        __CPROVER_assert(c.at(t) == nullptr, "stale after reuse");
        __CPROVER_assert(c.at(n) == &objs[NCELL + 1], "reuse ok");
    }
    // invariant preserved (cells may have grown by one)
    size_t live = 0;
    for (size_t i = 0; i < c.cells_.size(); i++) if (c.cells_[i].id != 0) live++;
    __CPROVER_assert(live == c.size(), "count = live");
}
