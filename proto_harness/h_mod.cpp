#include "/repo/modules/main/module.cpp"
#include "/repo/modules/util/variables.cpp"
extern "C" {
unsigned long nondet_ulong() noexcept;
bool nondet_bool() noexcept;
void __CPROVER_assume(bool) noexcept;
void __CPROVER_assert(bool, const char*) noexcept;
}
using namespace tbox::main;
static int ev_n; static int ev_kind[64]; static int ev_who[64];
enum { INIT_OK, INIT_FAIL, START_OK, START_FAIL, STOP, CLEANUP };
static void ev(int k, int w) { ev_kind[ev_n] = k; ev_who[ev_n] = w; ev_n++; }
struct Probe : Module {
    int id; bool init_ok, start_ok;
    Probe(int i, Context &c, bool io, bool so) : Module("", c), id(i), init_ok(io), start_ok(so) {}
    bool onInit(const tbox::Json &) override { ev(init_ok ? INIT_OK : INIT_FAIL, id); return init_ok; }
    bool onStart() override { ev(start_ok ? START_OK : START_FAIL, id); return start_ok; }
    void onStop() override { ev(STOP, id); }
    void onCleanup() override { ev(CLEANUP, id); }
};
extern "C" void harness_mod() {
    Context *ctx = nullptr;                       // never dereferenced by Module itself
    Probe *m[3];
    for (int i = 0; i < 3; i++) m[i] = new Probe(i, *ctx, nondet_bool(), nondet_bool());
    bool req1 = nondet_bool(), req2 = nondet_bool();
    unsigned long p2 = nondet_ulong(); __CPROVER_assume(p2 < 2);   // parent of module 2: root or module 1
    m[0]->add(m[1], req1);
    m[p2]->add(m[2], req2);
    tbox::Json js;                                 // unnamed modules: config object is only passed through
    bool i_ok = m[0]->initialize(js);
    bool s_ok = i_ok ? m[0]->start() : false;
    m[0]->stop();
    m[0]->cleanup();
    delete m[0];
    // balance: every successful init has exactly one cleanup; every successful start exactly one stop
    for (int w = 0; w < 3; w++) {
        int io = 0, cl = 0, so = 0, sp = 0;
        for (int i = 0; i < ev_n; i++) if (ev_who[i] == w) {
            if (ev_kind[i] == INIT_OK) io++; if (ev_kind[i] == CLEANUP) cl++;
            if (ev_kind[i] == START_OK) so++; if (ev_kind[i] == STOP) sp++; }
        __CPROVER_assert(io == cl, "every successful onInit is matched by exactly one onCleanup");
        __CPROVER_assert(so == sp, "every successful onStart is matched by exactly one onStop");
    }
}
