#include <tbox/base/cabinet.hpp>
extern "C" {
unsigned long nondet_ulong() noexcept;
void __CPROVER_assume(bool) noexcept;
void __CPROVER_assert(bool, const char*) noexcept;
}
using namespace tbox::cabinet;
#ifndef NCELL
#define NCELL 3
#endif
#ifndef SPARE
#define SPARE 1
#endif
typedef Cabinet<int> Cab;
typedef Cab::Cell Cell;
static const size_t NIL = (size_t)-1;
static int objs[NCELL + 2];
extern "C" void harness_cab() {
    Cab c;
    Cell mem[NCELL + SPARE];
    c.cells_._M_impl._M_start = mem;
    c.cells_._M_impl._M_finish = mem + NCELL;
    c.cells_._M_impl._M_end_of_storage = mem + NCELL + SPARE;
    // arbitrary valid state: each cell live (id != 0, distinct, <= last_id_) or free;
    // free cells are chained in an arbitrary order given by the witness permutation ord[]
    size_t nfree = nondet_ulong(); __CPROVER_assume(nfree <= NCELL);
    size_t ord[NCELL];
    bool is_free[NCELL]; for (size_t i = 0; i < NCELL; i++) is_free[i] = false;
    for (size_t k = 0; k < NCELL; k++) {
        if (k < nfree) { ord[k] = nondet_ulong(); __CPROVER_assume(ord[k] < NCELL); __CPROVER_assume(!is_free[ord[k]]); is_free[ord[k]] = true; }
    }
    c.last_id_ = nondet_ulong(); __CPROVER_assume(c.last_id_ < NIL - 4);
    for (size_t i = 0; i < NCELL; i++) {
        if (is_free[i]) { mem[i].id = 0; }
        else {
            mem[i].id = nondet_ulong(); __CPROVER_assume(mem[i].id != 0 && mem[i].id <= c.last_id_);
            for (size_t j = 0; j < i; j++) __CPROVER_assume(mem[j].id != mem[i].id);
            size_t v = nondet_ulong(); __CPROVER_assume(v < NCELL + 1); mem[i].obj_ptr = &objs[v];
        }
    }
    for (size_t k = 0; k < NCELL; k++) if (k < nfree) mem[ord[k]].next_free = (k + 1 < nfree) ? ord[k + 1] : NIL;
    c.first_free_ = nfree ? ord[0] : NIL;
    c.count_ = NCELL - nfree;

    Token t(nondet_ulong(), nondet_ulong());
    __CPROVER_assume(t.id() <= c.last_id_);     // tokens are only ever produced by alloc
    bool t_live = !t.isNull() && t.pos() < NCELL && mem[t.pos()].id == t.id();
    int *t_obj = t_live ? mem[t.pos()].obj_ptr : nullptr;
    __CPROVER_assert(c.at(t) == t_obj, "lookup");
    size_t before = c.size();
    unsigned op = OP;
    if (op == 0) {
        Token n = c.alloc(&objs[NCELL + 1]);
        __CPROVER_assert(!n.isNull() && c.at(n) == &objs[NCELL + 1], "new token resolves");
        __CPROVER_assert(!n.equal(t), "fresh token differs from any old token");
        __CPROVER_assert(c.at(t) == t_obj, "old token unaffected by alloc");
        __CPROVER_assert(c.size() == before + 1, "size+1");
    } else if (op == 1) {
        int *r = c.free(t);
        __CPROVER_assert(r == t_obj, "free returns stored object");
        __CPROVER_assert(c.at(t) == nullptr, "freed token resolves to nothing");
        __CPROVER_assert(c.size() == before - (t_live ? 1 : 0), "size-1");
        Token n = c.alloc(&objs[NCELL + 1]);
        __CPROVER_assert(c.at(t) == nullptr, "stale after reuse");
        __CPROVER_assert(c.at(n) == &objs[NCELL + 1], "reuse ok");
    }
    size_t live = 0;
    for (size_t i = 0; i < c.cells_.size(); i++) if (c.cells_[i].id != 0) live++;
    __CPROVER_assert(live == c.size(), "count = live");
    if (c.cells_._M_impl._M_start == mem) { c.cells_._M_impl._M_start = nullptr; c.cells_._M_impl._M_finish = nullptr; c.cells_._M_impl._M_end_of_storage = nullptr; }
}
