#include "/repo/modules/util/buffer.cpp"
extern "C" {
unsigned long nondet_ulong();
unsigned char nondet_uchar();
void __CPROVER_assume(bool);
void __CPROVER_assert(bool, const char*);
}
using tbox::util::Buffer;
#define CAP 6
#define NMAX 7
static bool inv(const Buffer &b) {
    return b.read_index_ <= b.write_index_ && b.write_index_ <= b.buffer_size_ &&
           ((b.buffer_ptr_ == nullptr) == (b.buffer_size_ == 0));
}
extern "C" void harness_step() {
    unsigned long cap = nondet_ulong(); __CPROVER_assume(cap <= CAP);
    Buffer b(cap);
    unsigned long r = nondet_ulong(), w = nondet_ulong();
    __CPROVER_assume(r <= w && w <= cap);
    __CPROVER_assume(!(r == w && r != 0));   // reachable-state invariant: indices snap to 0 when drained
    b.read_index_ = r; b.write_index_ = w;
    unsigned char ghost[CAP + NMAX]; unsigned long glen = w - r;
    for (unsigned long i = 0; i < glen; i++) { unsigned char c = nondet_uchar(); b.buffer_ptr_[r + i] = c; ghost[i] = c; }
    __CPROVER_assert(inv(b), "pre-inv");

    unsigned op = nondet_ulong();
    unsigned long n = nondet_ulong(); __CPROVER_assume(n <= NMAX);
    unsigned char data[NMAX]; for (int i = 0; i < NMAX; i++) data[i] = nondet_uchar();
    unsigned char out[CAP + NMAX];
    if (op == 0) {          // append
        unsigned long k = b.append(data, n);
        __CPROVER_assert(k == n, "append returns n");
        for (unsigned long i = 0; i < n; i++) ghost[glen + i] = data[i];
        glen += n;
    } else if (op == 1) {   // reserve-write-commit
        bool ok = b.ensureWritableSize(n);
        __CPROVER_assert(ok && b.writableSize() >= n, "reserve");
        unsigned long m = nondet_ulong(); __CPROVER_assume(m <= n);
        for (unsigned long i = 0; i < m; i++) { b.writableBegin()[i] = data[i]; ghost[glen + i] = data[i]; }
        b.hasWritten(m); glen += m;
    } else if (op == 2) {   // fetch
        unsigned long k = b.fetch(out, n);
        unsigned long exp = n < glen ? n : glen;
        __CPROVER_assert(k == exp, "fetch size");
        for (unsigned long i = 0; i < exp; i++) __CPROVER_assert(out[i] == ghost[i], "fetch content");
        for (unsigned long i = 0; i + exp < glen; i++) ghost[i] = ghost[i + exp];
        glen -= exp;
    } else if (op == 3) {   // consume
        __CPROVER_assume(n <= glen);
        b.hasRead(n);
        for (unsigned long i = 0; i + n < glen; i++) ghost[i] = ghost[i + n];
        glen -= n;
    } else if (op == 4) {
        b.hasReadAll(); glen = 0;
    } else if (op == 5) {
        b.shrink();
        __CPROVER_assert(b.buffer_size_ == glen, "shrink exact");
    } else if (op == 6) {   // copy independent
        Buffer c(b);
        __CPROVER_assert(inv(c) && c.readableSize() == glen, "copy size");
        for (unsigned long i = 0; i < glen; i++) __CPROVER_assert(c.readableBegin()[i] == ghost[i], "copy content");
        if (glen) { c.readableBegin()[0] ^= 0xff; }
    } else if (op == 7) {   // move
        Buffer c(std::move(b));
        __CPROVER_assert(b.readableSize() == 0 && inv(b), "moved-from empty");
        __CPROVER_assert(c.readableSize() == glen, "move size");
        for (unsigned long i = 0; i < glen; i++) __CPROVER_assert(c.readableBegin()[i] == ghost[i], "move content");
        b = std::move(c);
    } else if (op == 8) {
        b.reset(); glen = 0;
        __CPROVER_assert(b.buffer_size_ == 0, "reset");
    } else return;
    __CPROVER_assert(inv(b), "post-inv");
    __CPROVER_assert(b.readableSize() == glen, "size = written - consumed");
    for (unsigned long i = 0; i < glen; i++) __CPROVER_assert(b.readableBegin()[i] == ghost[i], "fifo content");
    __CPROVER_assert(!(b.read_index_ == b.write_index_ && b.read_index_ != 0), "post snap");
}
