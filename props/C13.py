from vpdrv import Job
JOBS = [
    Job('scanner.any6', 'C13/scanner.cpp', 'h_scanner_any', 'A', defs={'NB': 6}, unwind=8, reach=['scanner_any'], timeout=900, clause='key scanner on all byte sequences of length 6'),
    Job('editor.k3', 'C13/editor.cpp', 'h_editor', 'B', defs={'NKEYS': 3}, reach=['editor'], timeout=1700, clause='line editor vs reference: 3 symbolic keys over {printable, BS, DEL, left, right, home, end, up, down, tab}, history empty or 2 lines, then Enter'),
    Job('editor.k4', 'C13/editor.cpp', 'h_editor', 'B', defs={'NKEYS': 4}, reach=['editor'], timeout=3400, tier='thorough', clause='line editor vs reference: 4 symbolic keys'),
    Job('history.20', 'C13/editor.cpp', 'h_history20', 'B', reach=['history20'], timeout=1700, clause='history keeps the last 20 of 0..21 lines in order'),
    Job('history.ref.h3', 'C13/editor.cpp', 'h_history_ref', 'B', defs={'NH': 3}, reach=['history_ref'], timeout=1700, clause='!n / !-n / !! with symbolic and extreme arguments, 3 stored lines'),
    Job('history.ref.h0', 'C13/editor.cpp', 'h_history_ref', 'B', defs={'NH': 0}, reach=['history_ref'], timeout=1700, clause='!n / !-n / !! on an empty history'),
    Job('front.telnetd.n6', 'C13/frontends.cpp', 'h_telnetd', 'B', defs={'NB': 6}, reach=['front'], timeout=1700, clause='telnet front end: every 6-byte sequence over {IAC SB SE WILL DO DONT NOP WINDOW ECHO q a NUL}, any 2-way segmentation, loop pass between segments or not, session ended by data (deferred exit) or by the peer: no exception / invalid access / traffic for a dead session'),
    Job('front.tcprpc.n4', 'C13/frontends.cpp', 'h_tcprpc', 'B', defs={'NB': 4}, reach=['front'], timeout=1700, clause='raw-TCP front end: every 4-byte sequence over the same alphabet, any 2-way segmentation, session ended by data or by the peer'),
]
META = dict(
    explanation='Key scanner: KeyEventScanner::next (clang IR -> C, CBMC/cadical) on every byte sequence of length 6: status/result/state stay inside their enumerations, no invalid access. '
                'Line editor: the real terminal::Terminal::Impl (terminal.cpp, terminal_key_events.cpp, terminal_commands.cpp, nodes, split_cmdline) runs in symir on a fake Connection; a symbolic sequence of keys over {printable, backspace, delete, left, right, home, end, history up/down, tab} is delivered as the keys\' byte encodings, '
                'after every key the line and cursor must equal an array+cursor reference editor, Enter must produce exactly one prompt, reset the editor and store the edited line. History keeps the last 20 of 0..21 lines. '
                '!n / !-n / !! with symbolic one- and two-digit arguments and extreme arguments (beyond int range, INT_MIN) on histories of 0 and 3 lines must re-run exactly the addressed entry or report an error; any escaping exception or invalid access is a violation.',
    bounds='scanner: 6 bytes; editor: 3 symbolic keys (4 thorough) from an empty or 2-line history; history: 0..21 lines; history references: 1-2 symbolic digits, 4 extreme literals, histories of 0 and 3 lines',
    outside='telnet option negotiation / raw-TCP front ends (telnetd.cpp, tcp_rpc.cpp need the TcpServer stack); node-tree commands (cd/ls/tree) beyond dispatch; key sequences split across segments; lines longer than 15 characters',
    assumptions=['fake Connection accepts every send', 'LogPrintfFunc is a no-op', 'isprint/islower follow the C locale'],
    trusted_base=['clang++-14 -O1 IR', 'engine/ir2c.py + cbmc 6.11', 'engine/symir.py (+ std::string/deque/stringstream models)', 'z3'])
