from vpdrv import Job
CTLS = ['none', 'stop', 'pause+resume', 'reset', 'pause after completions, then resume-pause-resume', 'pause after completions, then resume']
JOBS = []
for c, cn in enumerate(CTLS):
    JOBS.append(Job('tree.sequence.ctl%d' % c, 'C17/actions.cpp', 'h_tree', 'B', defs={'KIND': 0, 'CTL': c}, reach=['tree'], timeout=1700,
                    clause='SequenceAction over 3 probe leaves: mode, leaf outcomes (succ/fail/block/never), inline or late completion, control script "%s" at a symbolic pass; then reset and a second run' % cn))
    JOBS.append(Job('tree.parallel.ctl%d' % c, 'C17/actions.cpp', 'h_tree', 'B', defs={'KIND': 1, 'NL': 2, 'CTL': c}, reach=['tree'], timeout=1700,
                    clause='ParallelAction over 2 probe leaves, same symbolic dimensions, control script "%s"; then reset and a second run' % cn))
JOBS.append(Job('repeat.loop', 'C17/actions.cpp', 'h_repeat', 'B', reach=['repeat'], timeout=1700, clause='RepeatAction (1-3 times, all modes) and LoopAction (until-fail / until-succ) over a probe leaf with per-round symbolic outcome and inline/late completion: rounds run and result equal the documented loop meaning'))
for c, cn in enumerate(CTLS):
    JOBS.append(Job('tree.parallel3.ctl%d' % c, 'C17/actions.cpp', 'h_tree', 'B', defs={'KIND': 1, 'NL': 3, 'CTL': c}, reach=['tree'], timeout=3400, tier='thorough', clause='ParallelAction over 3 probe leaves, control script "%s"' % cn))
META = dict(
    explanation='Path-wise symbolic execution (engine/symir.py, z3) of the real flow::Action base class, AssembleAction, SequenceAction, ParallelAction and DummyAction on a fake loop (deferred finish/block notifications run pass by pass) and fake timers. '
                'Composite mode, every leaf outcome (success / failure / block / never), whether a leaf completes inside its start hook or on a later loop pass, a timeout on the root and one control call (none / stop / pause+resume / reset) at a symbolic pass are symbolic. '
                'Checked: the root finish callback fires exactly once and only when the root finished; the sequence result and the set and order of started children equal the documented meaning of the mode; no child is started twice within a run; after stop, reset or finish no descendant is running or paused; '
                'after stop/reset - also after every still-armed timer has expired - no stale finish notification arrives and a reset tree is idle.'
                ' Extended: six control scripts (none, stop, pause+resume, reset, pause after a child completed then resume, or resume-pause-resume back to back), each followed by reset and a second run that must behave like a fresh tree; RepeatAction (1-3 times, all modes) and LoopAction (until-fail / until-succ) over a probe leaf with per-round symbolic outcomes against the documented loop meaning.',
    bounds='one composite (sequence over 3 leaves, parallel over 2 leaves; 3 in the thorough tier), 4 loop passes, one control call; Repeat/Loop: <= 5 rounds',
    outside='IfElse / IfThen / Switch / LoopIf / Wrapper / Composite / Function / Sleep actions and nested composites (not encoded in this revision); RepeatAction with times == 0 (means "forever" in this library); ActionExecutor; the exact result of ParallelAction per mode (only liveness/consistency clauses are checked for it); JSON dumps',
    assumptions=['fake loop runs runNext callbacks pass by pass and supports cancel like CommonLoop (C01 checks the real one)', 'fake timers fire only when the harness says so'],
    trusted_base=['clang++-14 -O1 IR', 'engine/symir.py', 'z3', 'harness/vp_fakes.hpp'])
