from vpdrv import Job
JOBS = []
P = 'C12/parser.cpp'
JOBS.append(Job('parse.any5', P, 'h_parse_any', 'B', defs={'NANY': 5}, reach=['parse_any'], timeout=900, clause='parser total on arbitrary byte strings of length <= 5'))
for t in range(6):
    JOBS.append(Job('parse.holes.t%d' % t, P, 'h_parse_holes', 'B', defs={'TPL': t}, reach=['parse_holes'], timeout=900, clause='parser total on request template %d with symbolic bytes' % t))
for s_ in range(3):
    JOBS.append(Job('parse.segment.s%d' % s_, P, 'h_segmentation', 'B', defs={'STREAM': s_, 'ONECUT': None}, reach=['segmentation'], timeout=900, clause='segmentation independence, stream %d, one symbolic cut' % s_))
    JOBS.append(Job('parse.segment2.s%d' % s_, P, 'h_segmentation', 'B', defs={'STREAM': s_}, reach=['segmentation'], timeout=3000, tier='thorough', clause='segmentation independence, stream %d, two symbolic cuts' % s_))
for n in (2, 3):
    JOBS.append(Job('server.pipeline.n%d' % n, 'C12/server.cpp', 'h_pipeline', 'B', defs={'NREQ': n}, reach=['pipeline'], timeout=1500, tier='quick' if n == 2 else 'quick',
                    clause='pipeline of %d requests: completion order/timing symbolic, close request at a symbolic position, 1-2 segments' % n))
JOBS.append(Job('server.order.n4', 'C12/server.cpp', 'h_pipeline', 'B', defs={'NREQ': 4, 'LATE_ONLY': None}, reach=['pipeline'], timeout=1500, clause='4 pipelined requests, every completion order and send-complete timing (all late, keep-alive)'))
JOBS.append(Job('server.tailsplit.n2', 'C12/server.cpp', 'h_pipeline', 'B', defs={'NREQ': 2, 'TAILSPLIT': None}, reach=['pipeline'], timeout=1500, clause='2 requests, the last 0..24 bytes of the stream arrive in a segment of their own; the transport seam honours the receive threshold the server registered (BufferedFd contract): every request is still handled and answered'))
JOBS.append(Job('server.pipeline.n4', 'C12/server.cpp', 'h_pipeline', 'B', defs={'NREQ': 4}, reach=['pipeline'], timeout=3400, tier='thorough', clause='pipeline of 4 requests'))
META = dict(
    explanation='Path-wise symbolic execution (engine/symir.py, z3) of the real RequestParser / Server::Impl / Context / Respond / url / string code compiled to LLVM IR from the working tree. '
                'Totality: arbitrary byte strings and request templates with symbolic holes; an escaping C++ exception, an out-of-bounds or uninitialised access is a violation. '
                'Segmentation: well-formed streams (declared body lengths, pipelined) are cut at symbolic offsets and fed through the same buffer loop as the server; the request sequence must equal the unsegmented one. '
                'Pipeline: the real server runs on a link seam for network::TcpServer; position/kind of the closing request, which handlers complete inside the callback, the completion order of the others, segment boundary and send-complete timing are symbolic.'
                ' Extended: the transport seam records the receive threshold the server registers and - like network::BufferedFd - calls back only when at least that much is unconsumed; one job delivers the last 0..24 bytes of a 2-request stream in a segment of their own. shutdown(SHUT_RD) on the seam has the consequence it has on the real transport (end-of-file -> the connection is dropped and reported as disconnected before any late handler completes).',
    bounds='arbitrary input <= 5 bytes; 6 templates with 1-3 symbolic bytes each; 3 streams with one symbolic cut (two cuts in thorough); pipelines of 2-3 requests (all dimensions symbolic) and 4 requests (completion order and send-complete timing symbolic); tail split: 0..24 bytes',
    outside='fully symbolic long requests; Respond formatting details; real sockets / TcpServer / TcpConnection (link seam); requests without declared body length (the parser takes the rest of the buffer as body by design)',
    assumptions=['TcpServer seam: send() accepts everything while the connection is valid, disconnect() invalidates the token, send-complete is delivered at an arbitrary later moment', 'LogPrintfFunc is a no-op'],
    trusted_base=['clang++-14 -O1 IR', 'engine/symir.py with its std::string/std::map(rb-tree)/ostringstream/shared_ptr-atomics models (rb-tree model self-tested against libstdc++ by engine/selftest.sh)', 'z3'])
