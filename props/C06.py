from vpdrv import Job
JOBS = [
    Job('bfd.s2', 'C06/buffered_fd.cpp', 'h_bfd', 'B', defs={'NSTEP': 2}, reach=['bfd'], timeout=900, clause='buffered fd: 2 symbolic steps (same dimensions)'),
] + [
    Job('bfd.s3.shrink%d' % k, 'C06/buffered_fd.cpp', 'h_bfd', 'B', defs={'NSTEP': 3, 'SHRINK_AT': k}, reach=['bfd'], timeout=1700, clause='buffered fd: 3 symbolic steps over {send 1-3 bytes, enable, writable, readable, peer writes 1-3 bytes, peer close}; kernel accepts/delivers arbitrary prefixes; shrinkSendBuffer/shrinkRecvBuffer ' + ('after step %d' % (k + 1) if k < 3 else 'never')) for k in range(4)
] + [
    Job('bfd.rxstate.s3', 'C06/buffered_fd.cpp', 'h_bfd', 'B', defs={'NSTEP': 3, 'RXONLY': None, 'SHRINK_AT': 3, 'RXSTATE': 4}, reach=['bfd'], timeout=1700, clause='receive side from an ARBITRARY valid state of the receive queue (capacity 4, any read/write index agreeing with the ghost stream): 3 symbolic steps over {readable, peer writes 1-3 bytes, peer close} - growth and compaction with a non-zero read index'),
    Job('bfd.rx.s5', 'C06/buffered_fd.cpp', 'h_bfd', 'B', defs={'NSTEP': 5, 'RXONLY': None, 'SHRINK_AT': 5}, reach=['bfd'], timeout=3400, tier='thorough', clause='receive side only, enabled from the start: 5 symbolic steps over {readable, peer writes 1-3 bytes, peer close}, threshold and consumption symbolic (partial consumption followed by more data = compaction / growth of the receive queue)'),
    Job('bfd.s4', 'C06/buffered_fd.cpp', 'h_bfd', 'B', defs={'NSTEP': 4}, reach=['bfd'], timeout=3400, tier='thorough', clause='same with 4 steps'),
]
META = dict(
    explanation='Path-wise symbolic execution (engine/symir.py, z3) of the real network/buffered_fd.cpp with util::Buffer and util::Fd on a fake loop with fake fd events. The kernel is a harness-level seam: write() accepts a symbolic prefix of what it is offered or returns EAGAIN, '
                'readv() delivers a symbolic non-empty prefix of what the peer wrote, 0 after the peer closed and EAGAIN otherwise. A symbolic script of steps (send 1-3 bytes, enable, descriptor writable, descriptor readable, peer writes 1-3 bytes, peer closes), the receive threshold, how much the receive callback consumes and whether the application sends again from inside the send-complete callback are symbolic. '
                'Ghost streams check after every step: wire ++ queued bytes == bytes accepted by send() (order, nothing lost/duplicated); queued bytes imply an armed write event while enabled (liveness); send-complete only with an empty queue; the receive callback sees exactly the delivered-but-unconsumed bytes in order; read-zero only after all preceding data; finally, with a peer that accepts everything, every sent byte is on the wire.',
    bounds='3 symbolic steps (4 in the thorough tier), transfers of 1-3 bytes, threshold 0-2, one shrink of both queues after any one step (or never)',
    outside='TcpConnection / TcpServer / TcpAcceptor / TcpConnector / TcpClient lifetimes and deferred destruction (kernel socket state machines; not encoded); multi-megabyte transfers (Buffer growth is covered size-generically by C07); write errors other than EAGAIN; bind() to a receiver',
    assumptions=['level-triggered readiness delivered by the harness only while the corresponding fake event is enabled', 'errno is per path (engine model of __errno_location)'],
    trusted_base=['clang++-14 -O1 IR', 'engine/symir.py', 'z3', 'harness/vp_fakes.hpp', 'the kernel seam in harness/C06/buffered_fd.cpp'])
