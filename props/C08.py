from vpdrv import Job
JOBS = []
for op in ['lookup', 'alloc', 'free', 'update', 'clear', 'foreach_remove']:
    for spare in (0, 1):
        JOBS.append(Job('cabinet.%s.spare%d' % (op, spare), 'C08/cabinet.cpp', 'h_' + op, 'B', defs={'NCELL': 3, 'SPARE': spare}, reach=[op],
                        timeout=600, clause='cabinet one-step induction: ' + op))
JOBS.append(Job('pool.hist5', 'C08/pool.cpp', 'h_pool', 'B', defs={'STEPS': 5}, reach=['pool'], timeout=600, clause='object pool: all alloc/free histories of 5 steps, retention limit symbolic'))
JOBS.append(Job('pool.nested', 'C08/pool.cpp', 'h_pool_nested', 'B', reach=['pool_nested'], timeout=600, clause='object pool used re-entrantly: an element constructor allocating from the same pool (chain of 3) with 0-2 blocks parked, retention limit symbolic: no storage handed out twice, contents intact, ctor/dtor pair up'))
JOBS.append(Job('pool.hist7', 'C08/pool.cpp', 'h_pool', 'B', defs={'STEPS': 7}, reach=['pool'], timeout=1800, tier='thorough', clause='object pool: all alloc/free histories of 7 steps'))
FDOPS = ['copy', 'copy_assign', 'move', 'move_assign', 'reset', 'close', 'swap', 'self_assign', 'none']
for i, nm in enumerate(FDOPS):
    JOBS.append(Job('fd.%s' % nm, 'C08/fd.cpp', 'h_fd_step', 'B', defs={'OP': i}, reach=['fd'], timeout=900,
                    clause='shared fd handle: %s from an arbitrary reference structure, then destruction in any rotation' % nm))
META = dict(
    explanation='Bounded solver verdict over the real header-only Cabinet<T>/ObjectPool<T> templates and util/fd.cpp, instantiated in a harness TU, compiled to LLVM IR by clang and executed path-wise by engine/symir.py; every branch and assertion is decided by z3. '
                'Cabinet and Fd are checked by one-step induction from an arbitrary valid state (so histories of any length are covered for the window sizes); the object pool by exhaustive symbolic histories.'
                ' Extended: the pool is also used re-entrantly (an element constructor allocating from the same pool, chain of 3, 0-2 blocks parked); the descriptor handles own descriptor numbers 0 and 4.',
    bounds='cabinet: 3 cells (+0/+1 spare vector capacity), arbitrary ids < 2^64-5, arbitrary client token; pool: histories of 5 (quick) / 7 (thorough) alloc/free steps, <= 3 live objects, retention limit in {0,1,2,unlimited}; fd: 4 handles over <= 2 records, one of 9 operations; nested pool use: depth 3',
    outside='cabinet id wrap at 2^64; Token::hash quality; cabinets with more than 3 cells in the pre-state window (growth beyond is covered only through alloc from the window); LifetimeTag',
    assumptions=['operator new / malloc never fail', 'tokens presented to a cabinet were issued by that cabinet (id <= last_id_)'],
    trusted_base=['clang++-14 -O1 IR', 'engine/symir.py interpreter and its libstdc++/libc models', 'z3'])
