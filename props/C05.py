from vpdrv import Job
JOBS = []
def J(name, mn, mx, nt, P, T, tier='quick', to=1700):
    JOBS.append(Job(name, 'C05/thread_pool.cpp', 'h_pool', 'B', defs={'MINT': mn, 'MAXT': mx, 'NTASK': nt}, opts={'preempt': P, 'timeouts': T}, reach=['pool'], timeout=to, tier=tier,
                    clause='thread pool min %d / max %d workers, %d task(s), loop thread does {nothing, status query, cancel} then cleanup: every schedule with <= %d preemptions; happens-before race check' % (mn, mx, nt, P)))
J('pool.min1.max1.t1', 1, 1, 1, 2, 1)
J('pool.min0.max1.t1', 0, 1, 1, 2, 1)
J('pool.min1.max2.t2', 1, 2, 2, 1, 1, tier='thorough', to=3400)
J('pool.min1.max1.t1.P3', 1, 1, 1, 3, 1, tier='thorough', to=3400)
JOBS.append(Job('pool.fifo.second_life', 'C05/thread_pool.cpp', 'h_pool_fifo', 'B', opts={'preempt': 1, 'timeouts': 1}, reach=['pool_fifo'], timeout=1700, clause='initialize-cleanup-initialize, then 4 tasks on a busy single worker, cancel the second: FIFO order, cancelled task never runs, accepted tasks do run (else the waiting loop thread deadlocks)'))
JOBS.append(Job('pool.prio', 'C05/thread_pool.cpp', 'h_pool_prio', 'B', opts={'preempt': 0, 'timeouts': 1}, reach=['pool_prio'], timeout=1700, clause='3 tasks with symbolic priorities in [-3,3] (out-of-range values included) waiting behind a busy single worker run by (clamped priority, submission order)'))
JOBS.append(Job('pool.retire', 'C05/thread_pool.cpp', 'h_pool_retire', 'B', opts={'preempt': 2, 'timeouts': 1}, reach=['pool_retire'], timeout=1700, clause='min 0 / max 1: two tasks submitted one after the other, the application waiting for each: a task submitted while the only worker retires still gets executed (no starvation), <= 2 preemptions'))
JOBS.append(Job('wt.t1', 'C05/work_thread.cpp', 'h_wt', 'B', opts={'preempt': 2, 'timeouts': 1}, reach=['wt'], timeout=1700, clause='WorkThread: one task, loop thread does {nothing, status query, cancel} then cleanup: every schedule with <= 2 preemptions; deadlock and happens-before race check'))
JOBS.append(Job('wt.t1.strict', 'C05/work_thread.cpp', 'h_wt', 'B', defs={'STRICT': None}, opts={'preempt': 2, 'timeouts': 1}, reach=['wt'], timeout=1700, clause='WorkThread: a not-found answer (status or cancel) is compared with what had happened at that moment: the body has run already, or never runs'))
JOBS.append(Job('pool.t1.strict', 'C05/thread_pool.cpp', 'h_pool', 'B', defs={'MINT': 1, 'MAXT': 1, 'NTASK': 1, 'STRICT': None}, opts={'preempt': 2, 'timeouts': 1}, reach=['pool'], timeout=1700, clause='ThreadPool (1 worker): a not-found answer is compared with what had happened at that moment'))
JOBS.append(Job('wt.fifo', 'C05/work_thread.cpp', 'h_wt_fifo', 'B', defs={'NW': 4}, opts={'preempt': 0, 'timeouts': 1}, reach=['wt_fifo'], timeout=1700, clause='WorkThread: 4 tasks waiting behind a busy worker, any one of them (symbolic) cancelled: the rest runs in submission order'))
JOBS.append(Job('wt.t1.P3', 'C05/work_thread.cpp', 'h_wt', 'B', opts={'preempt': 3, 'timeouts': 1}, reach=['wt'], timeout=3400, tier='thorough', clause='WorkThread: one task, preemption bound 3'))
META = dict(
    explanation='The real eventx/thread_pool.cpp (execute / getTaskStatus / cancel / cleanup / threadProc / createWorker / popOneTask with Cabinet and ObjectPool) runs under engine/symir.py\'s thread scheduler (see C10): all interleavings at synchronisation granularity within the preemption bound, '
                'deadlock detection (a worker sleeping forever makes cleanup() hang in join), vector-clock data-race detection with a second pass that turns racy accesses into scheduling points. The loop thread submits tasks, optionally queries the status or cancels task 0 and then calls cleanup(); ghost counters check at-most-once execution, never on the loop thread, completion callback once and after the body, '
                'cancel==0 implies never run, kExecuting implies completes, kNotFound implies finished or never runs.'
                ' Extended: WorkThread gets the same harnesses (one task vs status/cancel/cleanup under all schedules within the bound, race and deadlock detection; FIFO with any one of 4 waiting tasks cancelled); a strict oracle compares every not-found answer with what had happened at that moment; three waiting tasks with symbolic priorities in [-3,3] (out-of-range values are clamped) run by (priority, submission order); with min 0 / max 1 a task submitted while the only worker retires is still executed.',
    bounds='(min,max) workers (1,1) and (0,1) with one task and preemption bound 2 in the quick tier; (1,2) with two tasks of symbolic priority (bound 1) and bound 3 in the thorough tier; WorkThread: 1 task, preemption bound 2 (3 thorough); FIFO 4 waiting tasks; priority: 3 tasks; retire: 2 sequential tasks, bound 2',
    outside='more than 2 workers; more than 4 waiting tasks; real timing',
    assumptions=['pthread / condition-variable semantics as modelled by the engine', 'the fake main loop protects its queue with a mutex like the real one'],
    trusted_base=['clang++-14 -O1 IR', 'engine/symir.py thread scheduler and race detector', 'z3'])
