from vpdrv import Job
JOBS = [
    Job('dns.any', 'C15/dns.cpp', 'h_dns_any', 'B', defs={'PKT': 13}, reach=['dns_any'], timeout=1700, opts={'max-depth': 80}, clause='arbitrary datagram <= 14 bytes against one outstanding lookup'),
    Job('dns.template', 'C15/dns.cpp', 'h_dns_template', 'B', reach=['dns_template'], timeout=1700, opts={'max-depth': 80}, clause='reply template with symbolic counts / compression pointer / record type+length / label length, truncated at every offset'),
    Job('dns.longlabel', 'C15/dns.cpp', 'h_dns_longlabel', 'B', reach=['dns_longlabel'], timeout=1700, opts={'max-depth': 80}, clause='any label length octet (0..255) in front of 200 bytes of data'),
    Job('dns.complete', 'C15/dns.cpp', 'h_dns_complete', 'B', reach=['dns_complete'], timeout=1700, clause='lookup completion: reply / foreign reply / tick / cancel in every order of 4 steps'),
    Job('timeout.monitor', 'C14/proto.cpp', 'h_timeout_monitor', 'B', reach=['timeout_monitor'], timeout=900, clause='timeout monitor (shared with C14): every value completes exactly once, also with retries from inside the callback'),
]
JOBS.append(Job('dns.rcode', 'C15/dns.cpp', 'h_dns_rcode', 'B', reach=['dns_rcode'], timeout=900, clause='two servers, first reply carries any response code 1..15, second reply good or another error code: documented status for every code, never success without data'))
JOBS.append(Job('udp.recv', 'C15/udp.cpp', 'h_udp_recv', 'B', reach=['udp_recv'], timeout=900, clause='UdpSocket receive path with a kernel seam: datagram sizes 0, 1, 100, 4095, 4096, 4097, 5633, 65507: the callback gets exactly the bytes received into the buffer, never a length beyond it'))
META = dict(
    explanation='Path-wise symbolic execution (engine/symir.py, z3) of the real network/dns_request.cpp with util::Deserializer/Serializer, std::map and eventx::TimeoutMonitor, on a link seam for network::UdpSocket and a fake loop/timer. '
                'Datagrams: fully symbolic packets; a reply template (header, question, one answer) with symbolic answer count, compression pointer, record type/rdlength, first label length, truncated at every offset; a packet whose label length octet takes all 256 values in front of 200 data bytes. '
                'The engine memory model reports out-of-bounds and use-after-free accesses and every branch/index/string operation that depends on uninitialised bytes; a call depth above 80 frames is reported as unbounded recursion; the harness bounds the number of reported records by what the datagram can encode and checks the well-formed reply. '
                'Completion: reply / foreign reply / timer tick / cancel in every order of 4 steps; callback exactly once, never after cancel.'
                ' Extended: two servers and a first reply with ANY response code 1..15 followed by a good reply or another error code (documented status per code, never success without data); the real UdpSocket receive path with a recvfrom seam obeying the kernel contract (MSG_TRUNC returns the real length) for datagram sizes around the 4096-byte buffer.',
    bounds='arbitrary datagrams <= 13 bytes; 37-byte template with 5 families of symbolic bytes x every truncation; 216-byte long-label packet; completion scripts of 4 steps with one lookup; timeout monitor as in C14; rcode: 2 servers, 2 replies; UDP sizes {0,1,100,4095,4096,4097,5633,65507}',
    outside='replies with more than one answer record; request() encoding; packets > 216 bytes; more than two servers',
    assumptions=['UdpSocket seam: send succeeds, enable/disable only toggle a flag', 'uninitialised reads are reported on the engine\'s evidence (ASan/UBSan cannot observe them natively)'],
    trusted_base=['clang++-14 -O1 IR', 'engine/symir.py (+ rb-tree, std::string, ostringstream models)', 'z3', 'harness/vp_fakes.hpp'])
