from vpdrv import Job
JOBS = []
for sub in (0, 1, 2):
    for rslot in (0, 1, 2, 3):
        JOBS.append(Job('sm.sub%d.re%d' % (sub, rslot), 'C16/sm.cpp', 'h_sm', 'B', defs={'NSTEP': 2, 'SUBST': sub, 'RSLOT': rslot}, reach=['sm'], timeout=1700,
                        clause='2-level machine (sub-machine on state %d, re-entrant call slot %d): route events, guard/handler results symbolic; start + 2 symbolic calls + stop' % (sub, rslot)))
for sub in (1, 2):
    JOBS.append(Job('sm.sub%d.step3' % sub, 'C16/sm.cpp', 'h_sm', 'B', defs={'NSTEP': 3, 'SUBST': sub, 'RSLOT': 3}, reach=['sm'], timeout=3400, tier='thorough', clause='same with 3 symbolic calls'))
META = dict(
    explanation='Path-wise symbolic execution (engine/symir.py, z3) of the real flow/state_machine.cpp. A two-level hierarchy (top machine + sub-machine, two user states and the terminal state each, two routes per state: guarded routes, routes to the terminal state) is built through the public API; '
                'the event label of every route (1, 2 or the any-event wildcard), the presence of a per-state event handler, every guard result and every handler result, the call sequence (start / run(1) / run(2) / stop / restart) are symbolic; the position of the sub-machine and the action slot that makes a re-entrant call are enumerated by separate solver runs. '
                'The recorded trace (guard evaluations, handler calls, exit / transition / enter actions, state-changed notifications), every return value, running flag and current state of both machines are compared with an array-based reference interpreter of the documented semantics; enter/exit must balance at both levels after stop.',
    bounds='2 levels, 2 states + terminal per machine, 2 routes per state, start + 2 symbolic calls + stop (3 in the thorough tier), sub-machine on none/state 1/state 2, re-entrant call from enter/exit/transition action or none',
    outside='depth >= 3, more states/routes, symbolic route targets (fixed topology), setInitState, toJson/graphviz output, user-defined state with id 0',
    assumptions=['LogPrintfFunc is a no-op'],
    trusted_base=['clang++-14 -O1 IR', 'engine/symir.py (+ std::map/vector/function execution, rb-tree model)', 'z3', 'the reference interpreter in harness/C16/sm.cpp'])
