from vpdrv import Job
JOBS = [Job('signals.s3', 'C04/signals.cpp', 'h_signals', 'B', defs={'NSTEP': 3}, reach=['signals'], timeout=1700, clause='2 loops, 3 signal events (event 0: signal set over {S1,S2} and mode symbolic), pre-installed handler symbolic, 3 symbolic steps over {enable 0/1/2, disable 0, destroy 1, deliver S1, deliver S2}'),
        Job('signals.s4', 'C04/signals.cpp', 'h_signals', 'B', defs={'NSTEP': 4}, reach=['signals'], timeout=3400, tier='thorough', clause='same with 4 steps')]
META = dict(explanation='x', bounds='', outside='', assumptions=[], trusted_base=[])
