from vpdrv import Job
JOBS = [
    Job('findend.prefix.n6', 'C14/framing.cpp', 'h_findend_prefix', 'A', defs={'NB': 6}, unwind=9, reach=['findend_prefix'], timeout=900, clause='raw framing scan: prefix stability on all byte strings <= 6'),
    Job('findend.prefix.n8', 'C14/framing.cpp', 'h_findend_prefix', 'A', defs={'NB': 8}, unwind=11, reach=['findend_prefix'], timeout=3400, tier='thorough', clause='raw framing scan: prefix stability on all byte strings <= 8'),
    Job('findend.string', 'C14/framing.cpp', 'h_findend_string', 'A', unwind=18, reach=['findend_string'], timeout=900, clause='raw framing scan respects string syntax (escaped quotes, backslashes, braces inside strings)'),
    Job('header.any', 'C14/proto.cpp', 'h_header_any', 'B', reach=['header_any'], timeout=900, clause='length-prefixed framing on arbitrary 6 header bytes incl. extreme lengths: result by return value'),
    Job('raw.any.n3', 'C14/proto.cpp', 'h_raw_any', 'B', defs={'RN': 3}, reach=['raw_any'], timeout=1700, clause='raw-stream framing (RawStreamProto::onRecvData with FindEndPos and the compiled JSON parser) on every text of <= 3 characters over { } [ ] \" 1 , space}: answer by return value, no exception'),
    Job('timeout.monitor', 'C14/proto.cpp', 'h_timeout_monitor', 'B', reach=['timeout_monitor'], timeout=900, clause='timeout monitor: add/tick scripts with retries from inside the timeout callback; each value completes exactly once'),
]
META = dict(
    explanation='Raw framing: util::json::FindEndPos (clang IR -> C via ir2c, CBMC/cadical) on arbitrary byte strings with a symbolic length and a symbolic prefix length; prefix stability of the scan is exactly segmentation independence of RawStreamProto, which rescans its buffer on every arrival; a second harness builds JSON strings with symbolic content and escape pairs and requires the value to end at its closing brace. '
                'Length-prefixed framing: the real HeaderStreamProto::onRecvData (with Deserializer and the compiled nlohmann parser) runs in symir on 6 fully symbolic header bytes (magic, 32-bit length incl. extreme values) and a symbolic buffer size; an escaping exception is a violation. '
                'Completion: the real eventx::TimeoutMonitor (the engine behind Rpc request time-outs) runs on a fake loop/timer with symbolic add/tick scripts and retries issued from inside the time-out callback; each value must time out exactly once and the tick timer must run exactly while something is pending.'
                ' Extended: RawStreamProto::onRecvData (FindEndPos + the compiled JSON parser) on every text of <= 3 characters over { } [ ] " 1 , space: answer by return value (-1 / 0 / consumed), never an exception.',
    bounds='FindEndPos: all byte strings <= 6 (8 thorough), every prefix; string members of 3 symbolic pieces; header framing: 12-byte buffer; timeout monitor: 1-3 rounds, 5 symbolic steps, <= 6 values; raw stream: 3 characters over 8 symbols',
    outside='round trip of arbitrary nested JSON values through nlohmann::json dump/parse (library code far beyond the bound); PacketProto; Rpc id bookkeeping (only its time-out engine is covered); non-ASCII JSON text; raw-stream texts longer than 3 characters',
    assumptions=['isgraph() follows the C locale', 'fake TimerEvent fires only while enabled', 'CatchThrow stub catches everything like the real one (logging/backtrace removed)'],
    trusted_base=['clang++-14 -O1 IR', 'engine/ir2c.py + cbmc 6.11', 'engine/symir.py + z3', 'harness/vp_fakes.hpp'])
