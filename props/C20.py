from vpdrv import Job
JOBS = []
# weekly kernel: all 2^32 local times x all seconds-of-day; the weekday mask is concrete per run in the quick tier (div/mod-by-constant arithmetic
# needs cvc5 --solve-bv-as-int; a symbolic mask adds bit-wise operations that make the integer encoding slow)
for mk in (0x00, 0x01, 0x40, 0x10, 0x55, 0x2A, 0x7F):
    JOBS.append(Job('weekly.mask%02x' % mk, 'C20/kernels.cpp', 'h_weekly', 'A', defs={'MASK': mk}, unwind=10, backend='cvc5', reach=['weekly'] if mk else [], timeout=900,
                    clause='weekly alarm, mask 0x%02x: all 2^32 times x 86400 seconds-of-day, earliest strictly-after' % mk))
JOBS.append(Job('weekly.full', 'C20/kernels.cpp', 'h_weekly', 'A', unwind=10, backend='cvc5', reach=['weekly'], timeout=3400, tier='thorough', clause='weekly alarm: all 2^32 times x 128 masks x 86400 seconds-of-day'))
JOBS.append(Job('oneshot.full', 'C20/kernels.cpp', 'h_oneshot', 'A', unwind=4, backend='cadical', reach=['oneshot'], timeout=900, clause='one-shot alarm next instant, full range'))
for d0 in (19700, 19703, 19705):
    JOBS.append(Job('workday.d%d' % d0, 'C20/kernels.cpp', 'h_workday', 'B', defs={'WIN': 4, 'DAY0': d0}, reach=['workday'], timeout=900, clause='workday alarm against an arbitrary calendar (special days + week mask), 4-day window from day %d' % d0))
JOBS.append(Job('workday.win7', 'C20/kernels.cpp', 'h_workday', 'B', defs={'WIN': 7, 'DAY0': 19701}, reach=['workday'], timeout=3000, tier='thorough', clause='workday alarm, 7-day window'))
JOBS.append(Job('base.any', 'C20/base.cpp', 'h_alarm_base', 'B', reach=['alarm_base'], timeout=600, opts={'z3-timeout': 8000}, clause='alarm base class with an arbitrary contract-obeying next-instant function: wait >= distance, next target strictly later, disable/refresh/cleanup'))
JOBS.append(Job('oneshot.once', 'C20/base.cpp', 'h_oneshot_once', 'B', reach=['oneshot_once'], timeout=600, clause='one-shot alarm fires once'))
JOBS.append(Job('weekly.init', 'C20/base.cpp', 'h_weekly_init', 'B', reach=['weekly_init'], timeout=600, clause='weekly alarm configuration: repeated initialize() with symbolic masks'))
JOBS.append(Job('workday.calendar', 'C20/base.cpp', 'h_workday_calendar', 'B', reach=['workday_calendar'], timeout=900, clause='3 workday alarms on one calendar, 4 symbolic enable/disable toggles, then a calendar update (week mask or special days): exactly the enabled alarms are re-evaluated and end up armed like a freshly enabled alarm'))
META = dict(
    explanation='Next-instant kernels (WeeklyAlarm / OneshotAlarm::calculateNextLocalTimeSec) are translated from the clang IR of the real sources to C and decided by CBMC over the full 32-bit time range with a second symbolic witness instant w (now < w < next must not match); '
                'the div/mod-by-constant arithmetic is discharged by cvc5 --solve-bv-as-int=sum through cbmc --cvc5 (cadical for the one-shot kernel). The workday kernel runs path-wise (symir, z3) against an arbitrary calendar given by symbolic special days and week mask inside a day window. '
                'The alarm base class (activeTimer/onTimeExpired/enable/disable/refresh/cleanup) runs in symir on a fake loop/timer with a symbolic gettimeofday and with the virtual next-instant function replaced by an ARBITRARY function obeying its contract (result = argument + delta, 1 <= delta <= 400 days), which covers cron and every other alarm kind.'
                ' Extended: three WorkdayAlarms on one WorkdayCalendar, four symbolic enable/disable toggles, then a calendar update (week mask or special days): exactly the enabled alarms are re-evaluated and each ends up armed for the instant a freshly enabled alarm with the same configuration gets.',
    bounds='weekly: now in [0, 2^32 - 9 days), all seconds-of-day, 7 representative masks in the quick tier and the symbolic 7-bit mask in the thorough tier; one-shot: full range; workday: 4-day window (7 thorough) from 3 concrete start days, symbolic time of day/mask/special days; base class: one operation (expiry with the wall clock from 1 s before to 5 s after the target, disable+enable, clock adjustment+refresh, cleanup) after enable, time zone -720..840 min, distance up to 400 days; calendar: 3 alarms, 4 toggles',
    outside='cron expression parsing and cron_next (ccronexpr.cpp, 1200 lines over struct tm / mktime) - covered only through the contract stub of the base class (the seeded change C20-m3 in cron_next is therefore not caught); the system time zone path (localtime_r); local times beyond 2^32 - 9 days',
    assumptions=['gettimeofday succeeds and returns tv_usec < 10^6', 'fake TimerEvent records the armed interval; the loop fires it (one-shot timers disarm before the callback)', 'LogPrintfFunc is a no-op'],
    trusted_base=['clang++-14 -O1 IR', 'engine/ir2c.py + cbmc 6.11 (--cvc5 with the bv-as-int PATH shim, cadical)', 'engine/symir.py + z3 (+ cvc5/z3 CLI portfolio for queries z3 gives up on)', 'harness/vp_fakes.hpp'])
