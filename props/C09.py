from vpdrv import Job
JOBS = [
    Job('printf.len', 'C09/logging.cpp', 'h_printf_len', 'B', reach=['printf_len'], timeout=900, clause='formatted log call: would-be length from 10 boundary values (0,1,2047,2048,2049,5000,max-1,max,max+1,max+2048) x configured maximum in {10,2047,2048,2049,3000}, level symbolic incl. out of range'),
    Job('puts.len', 'C09/logging.cpp', 'h_puts_len', 'B', reach=['puts_len'], timeout=900, clause='unformatted log call: text length 0..10 around a maximum of 6'),
    Job('sink.filter', 'C09/logging.cpp', 'h_sink_filter', 'B', reach=['sink_filter'], timeout=1700, clause='sink thresholds: 3 symbolic steps over {set global, set module, unset module, set via empty module name} then a call with symbolic level/module'),
    Job('two.threads', 'C09/logging.cpp', 'h_two_threads', 'B', opts={'preempt': 2, 'timeouts': 1}, reach=['two_threads'], timeout=1700, clause='two threads x two records: all schedules with <= 2 preemptions, happens-before race check'),
]
META = dict(
    explanation='Path-wise symbolic execution (engine/symir.py, z3) of the real base/log_impl.cpp (LogPrintfFunc incl. its two-pass buffer sizing, Dispatch, LogAddPrintfFunc/LogRemovePrintfFunc, LogSetMaxLength) and log/sink.cpp (enable/disable, global and per-module thresholds, filter). '
                'vsnprintf is a harness-level contract stub (reports a would-be length, writes at most size-1 bytes and the terminator), gettimeofday and gettid are fixed seams. A recording sink registered through the public API must see exactly one record per passing call with level (clamped), time, thread id, module, function, file basename, line and the (cut) text intact, '
                'text_len == min(length, maximum) and the truncated mark iff text was cut, for boundary lengths around the 2 KiB stack buffer and around maxima below, at and above it; the sink filter is compared with a reference after symbolic sequences of setLevel / setLevel(module) / unsetLevel; '
                'two threads logging concurrently are explored under the thread scheduler (preemption bound 2): the sink is never entered by two threads at once, every call is delivered, per-thread order is kept, no data race.',
    bounds='maximum in {10,2047,2048,2049,3000} x 10 boundary lengths; unformatted text 0..10 with maximum 6; 3 filter-configuration steps; 2 threads x 2 records',
    outside='the file sink (roll-over, file naming, data on disk when disable returns: filesystem semantics this technique does not encode), stdout/syslog rendering, the asynchronous sink front/back end framing (the pipe underneath is covered by C10), content of the formatted text beyond first/last byte',
    assumptions=['vsnprintf obeys its C contract', 'LogContent is consumed synchronously inside the sink callback'],
    trusted_base=['clang++-14 -O1 IR', 'engine/symir.py (thread scheduler for the two-thread job)', 'z3', 'the seams in harness/C09/logging.cpp'])
