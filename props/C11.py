from vpdrv import Job
JOBS = [
    Job('module.n3.c3', 'C11/module.cpp', 'h_lifecycle', 'B', defs={'NMOD': 3, 'NCALLS': 3}, reach=['lifecycle'], timeout=1500, clause='3-module trees, every shape/required flag/hook outcome, 3 symbolic root calls + cleanup + destroy'),
    Job('module.n4.c2', 'C11/module.cpp', 'h_lifecycle', 'B', defs={'NMOD': 4, 'NCALLS': 2}, reach=['lifecycle'], timeout=1500, clause='4-module trees, 2 symbolic root calls + cleanup + destroy'),
    Job('module.n4.c4', 'C11/module.cpp', 'h_lifecycle', 'B', defs={'NMOD': 4, 'NCALLS': 4}, reach=['lifecycle'], timeout=3400, tier='thorough', clause='4-module trees, 4 symbolic root calls'),
]
META = dict(
    explanation='Path-wise symbolic execution (engine/symir.py, z3) of the real main/module.cpp: probe subclasses record every hook call; tree shape (parent of each module), required flags, add()/addAs(), named/unnamed modules with the real nlohmann config lookup, '
                'the outcome of every onInit/onStart, a sequence of arbitrary root calls (initialize/start/stop/cleanup, repeated and out of order) and destruction with or without a final cleanup() are symbolic. '
                'A reference acceptor checks nesting order (parents first, children in registration order, exact reverse for stop/cleanup), legality of every hook (start only after successful init, stop only if started, cleanup after stop), '
                'the return value of initialize() against the reference semantics (optional failures do not stop siblings/ancestors) and the balance of init/cleanup and start/stop per module once the tree is destroyed.',
    bounds='3 modules with 3 symbolic root calls; 4 modules with 2 (quick) / 4 (thorough) symbolic root calls; all tree shapes, flags and hook outcomes',
    outside='Main()/run_in_frontend/run_in_backend sequencing; more than 4 modules; the ROOT module\'s own hooks when the tree is destroyed without cleanup() (unreachable from a base-class destructor in C++)',
    assumptions=['LogPrintfFunc is a no-op', 'Module stores but never dereferences its Context reference'],
    trusted_base=['clang++-14 -O1 IR', 'engine/symir.py (+ std::string/std::map/vector models; nlohmann::json runs as compiled)', 'z3'])
