from vpdrv import Job
JOBS = []
def J(name, bs, mx, prod, P, T, tier='quick', fixed=False, to=1700):
    d = {'BUFSZ': bs, 'MAXNUM': mx, 'PRODUCERS': prod}
    if fixed: d['FIXEDN'] = None
    JOBS.append(Job(name, 'C10/pipe.cpp', 'h_pipe', 'B', defs=d, opts={'preempt': P, 'timeouts': T}, reach=['pipe'], timeout=to, tier=tier,
                    clause='%d producer(s), buffer size %d, max %d buffers, appends %s: every schedule with <= %d preemptions and <= %d early timed-wait expiries; happens-before race check' % (prod, bs, mx, '3 bytes' if fixed else '1-3 (+0-2) bytes', P, T)))
J('pipe.b2.m1.p1', 2, 1, 1, 1, 1)
J('pipe.b2.m2.p1', 2, 2, 1, 1, 1)
J('pipe.b1.m1.p1', 1, 1, 1, 1, 1, fixed=True)
J('pipe.b2.m2.p2', 2, 2, 2, 1, 1, fixed=True)
J('pipe.b2.m1.p1.P2', 2, 1, 1, 2, 2, tier='thorough', to=3400)
J('pipe.b1.m1.p1.P2', 1, 1, 1, 2, 2, tier='thorough', to=3400)
J('pipe.b2.m2.p2.P2', 2, 2, 2, 2, 1, tier='thorough', fixed=True, to=3400)
JOBS.append(Job('pipe.relife', 'C10/pipe.cpp', 'h_pipe_relife', 'B', defs={'BUFSZ': 2, 'MAXNUM': 2, 'PRODUCERS': 1}, opts={'preempt': 1, 'timeouts': 1}, reach=['pipe_relife'], timeout=1700, clause='initialize - append - cleanup - initialize - append (1-3 bytes) - cleanup on one object: both lives deliver everything, <= 1 preemption, <= 1 early timed-wait expiry'))
META = dict(
    explanation='The real util/async_pipe.cpp (producer side, background thread, cleanup) is executed by engine/symir.py with its thread scheduler: every std::mutex / condition-variable / std::thread operation and every atomic access is a scheduling point where the next thread is a symbolic choice; the engine forks over all enabled threads within a preemption bound, '
                'timed waits may expire early within a bound and always expire when nothing else can run; a state in which an unfinished thread can never run again is reported as a deadlock (cleanup never returns). Every plain load/store of heap/global memory is checked with vector clocks (thread start/join, unlock->lock, atomics): an unordered conflicting pair is a data race, '
                'and racy addresses become additional scheduling points in a second pass so that the consequences of a race are explored too. The harness checks the delivered stream against the appended strings (whole appends contiguous, producer order kept, nothing lost or duplicated), that sink callbacks never overlap and that everything appended before cleanup is delivered when cleanup returns.'
                ' Extended: second life - initialize, append, cleanup, initialize again (callback registered again, as log::AsyncSink does), append 1-3 bytes, cleanup: both lives deliver everything.',
    bounds='buffer sizes 1-2, 1-2 buffers, one producer (appends of 1-3 then 0-2 bytes) and two producers (3 + 2 bytes); preemption bound 1 and 1 early timed-wait expiry in the quick tier, bound 2 in the thorough tier; second life: buffer size 2, max 2 buffers, preemption bound 1',
    outside='more than two producers; preemption bounds above 2; weak-memory effects (sequential consistency assumed for race-free executions); flush-interval timing (time is abstracted to "may expire"); appendLockless without appendLock',
    assumptions=['pthread mutex / condition variable / std::thread semantics as modelled by the engine (lost-wake-up faithful: notify only affects threads already waiting)'],
    trusted_base=['clang++-14 -O1 IR', 'engine/symir.py thread scheduler, sync models and vector-clock race detector', 'z3'])
