from vpdrv import Job
OPS = ['append', 'reserve_commit', 'fetch', 'consume', 'consume_all', 'shrink', 'copy', 'copy_assign', 'self_assign', 'move', 'move_assign', 'swap', 'reset', 'commit_any']
JOBS = []
for cap in range(0, 9):
    for op in OPS:
        if op in ('append', 'reserve_commit', 'fetch'):
            # symbolic request size => symbolic allocation/copy sizes: CBMC's array theory blows up (5M vars, 100+ s), the path-wise engine decides it in seconds
            JOBS.append(Job('buffer.%s.cap%d' % (op, cap), 'C07/buffer.cpp', 'h_' + op, 'B', defs={'CAP': cap}, reach=[op],
                            tier='quick' if cap <= 5 else 'thorough', timeout=600, clause='one-step induction: %s, request size symbolic 0..4' % op))
            continue
        JOBS.append(Job('buffer.%s.cap%d' % (op, cap), 'C07/buffer.cpp', 'h_' + op, 'A', defs={'CAP': cap}, unwind=16, reach=[op],
                        tier='quick' if cap <= 5 else 'thorough', timeout=300, clause='one-step induction: ' + op))
META = dict(
    explanation='Bounded solver verdict over the real util::Buffer code (clang IR of modules/util/buffer.cpp translated to C by engine/ir2c.py, decided by CBMC/SAT; the three operations with symbolic allocation sizes are decided path-wise by engine/symir.py with z3 on the same IR). '
                'One-step induction: for each concrete capacity, every representable pre-state (read/write indices, whole storage content) and every request size/data is symbolic; '
                'the post-state must satisfy the representation invariant and agree with a ghost FIFO queue. Because the invariant is re-established by every operation, the FIFO '
                'property follows for operation histories of any length over these capacities.',
    bounds='initial capacity 0..5 (quick) / 0..8 (thorough), request size 0..4 (covers 0, exact fit, compaction, growth), all byte contents; loops unwound 16 with unwinding assertions',
    outside='capacities > 8 as *initial* state (larger capacities arise only through growth, which is covered from every smaller state); request sizes near 2^63 where (write_index+n)<<1 overflows; allocation failure',
    assumptions=['operator new never fails (model assumes non-null)', 'consume(n) is called with n <= readable size (documented use)', 'CBMC memcpy/memmove built-in models'],
    trusted_base=['clang++-14 front end and -O1 pipeline', 'engine/ir2c.py IR->C translator (validated per run by differential test against g++ build, see selftest)', 'cbmc 6.11 + SAT back end', 'engine/vp_models.c (operator new/delete)'])
