from vpdrv import Job
FAM = ['channel', 'mutex', 'semaphore', 'broadcast']
JOBS = []
for f in range(4):
    JOBS.append(Job('scripts.%s.r3s2' % FAM[f], 'C18/coroutine.cpp', 'h_scripts', 'B', defs={'FAMILY': f, 'NR': 3, 'NS': 2}, reach=['scripts'], timeout=1700,
                    clause='3 routines x 2 symbolic steps over {yield, %s ops}; idle-state and cancel/cleanup checks' % FAM[f]))
    JOBS.append(Job('scripts.%s.r2s3' % FAM[f], 'C18/coroutine.cpp', 'h_scripts', 'B', defs={'FAMILY': f, 'NR': 2, 'NS': 3}, reach=['scripts'], timeout=1700,
                    clause='2 routines x 3 symbolic steps over {yield, %s ops}' % FAM[f]))
    JOBS.append(Job('scripts.%s.r3s3' % FAM[f], 'C18/coroutine.cpp', 'h_scripts', 'B', defs={'FAMILY': f, 'NR': 3, 'NS': 3}, reach=['scripts'], timeout=7200, tier='thorough',
                    clause='3 routines x 3 symbolic steps over {yield, %s ops}' % FAM[f]))
JOBS.append(Job('join.cancel', 'C18/coroutine.cpp', 'h_join_cancel', 'B', reach=['join_cancel'], timeout=900, clause='join vs cancel: target created ready or suspended, cancelled after 0-2 loop passes (before its first run / after it started) or not at all: the joiner always returns from join()'))
JOBS.append(Job('wakeall', 'C18/coroutine.cpp', 'h_wakeall', 'B', reach=['wakeall'], timeout=900, clause='broadcast (0-3 waiters), condition kAll/kAny with early/late posts, join'))
META = dict(
    explanation='Path-wise symbolic execution (engine/symir.py, z3) of the real coroutine Scheduler and the Channel / Mutex / Semaphore / Condition / Broadcast templates on a fake event loop; getcontext/makecontext/swapcontext are modelled natively (a context is a saved call stack, uc_link honoured). '
                'Routine scripts are step lists whose steps are symbolic over {yield, send, receive, lock, unlock, acquire, release, broadcast wait/post}; the harness runs loop passes until the scheduler is idle and then inspects every routine: '
                'none may be suspended on a non-empty channel, a free mutex or a positive semaphore; values are FIFO exactly once; at most one mutex holder (also across a yield in the critical section); grants <= releases + initial count; '
                'then cancel-all or cleanup (symbolic) must make every started routine return with failure and terminate. A second harness covers broadcast with 0-3 waiters, Condition kAll/kAny with early and late posts, and join.'
                ' Extended: join vs cancel - the target is created ready or suspended and cancelled after 0-2 loop passes (before its first run or after it started) or not at all; the joiner always returns from join().',
    bounds='3 routines x 2 steps and 2 routines x 3 steps per primitive family (3 x 3 in the thorough tier), symbolic initial semaphore count 0/1, cancel vs cleanup symbolic; join/cancel: 1 target, 1 joiner',
    outside='more than 3 routines / 3 steps; routines creating routines; mixing primitives of different families in one script; real ucontext stack switching (replayed natively for counterexamples only)',
    assumptions=['scheduling is deterministic (round robin over the ready queue) as implemented by Scheduler::schedule', 'fake loop runs queued runNext callbacks pass by pass'],
    trusted_base=['clang++-14 -O1 IR', 'engine/symir.py incl. its ucontext model and std::queue/deque/set execution', 'z3', 'harness/vp_fakes.hpp'])
