from vpdrv import Job
JOBS = []
for be in ('EpollLoop', 'SelectLoop'):
    JOBS.append(Job('seq.%s' % be, 'C01/loop_tasks.cpp', 'h_seq', 'B', defs={'BACKEND': be}, reach=['seq'], timeout=1700,
                    clause='%s: runNext/runInLoop from the loop thread, cancel before / inside the running batch / after, late submissions drained at destruction' % be))
JOBS.append(Job('cross.EpollLoop', 'C01/loop_tasks.cpp', 'h_cross_thread', 'B', defs={'BACKEND': 'EpollLoop', 'VK_BLOCKING': None}, opts={'preempt': 2, 'timeouts': 1}, reach=['cross_thread'], timeout=1700,
                clause='EpollLoop: a second thread submits 3 tasks (the last one exits the loop) while the loop starts / runs / sleeps in epoll_wait: all schedules with <= 2 preemptions, deadlock = lost wake-up, happens-before race check'))
JOBS.append(Job('cross.EpollLoop.P3', 'C01/loop_tasks.cpp', 'h_cross_thread', 'B', defs={'BACKEND': 'EpollLoop', 'VK_BLOCKING': None}, opts={'preempt': 3, 'timeouts': 1}, reach=['cross_thread'], timeout=3400, tier='thorough', clause='same with preemption bound 3'))
JOBS.append(Job('rerun.EpollLoop', 'C01/loop_tasks.cpp', 'h_rerun', 'B', defs={'BACKEND': 'EpollLoop', 'VK_BLOCKING': None}, opts={'preempt': 1, 'timeouts': 1}, reach=['rerun'], timeout=1700,
                clause='EpollLoop: the loop stops (with or without a wake-up request still outstanding), is run again, and a second thread submits 2 tasks during the second run: no lost wake-up (deadlock), exactly once, <= 1 preemption'))
JOBS.append(Job('rerun.SelectLoop', 'C01/loop_tasks.cpp', 'h_rerun', 'B', defs={'BACKEND': 'SelectLoop', 'VK_BLOCKING': None}, opts={'preempt': 1, 'timeouts': 1}, reach=['rerun'], timeout=1700,
                clause='SelectLoop: same re-run scenario'))
META = dict(
    explanation='The real CommonLoop (runInLoop / runNext / run / cancel / handleNextFunc / handleRunInLoopFunc / commitRunRequest / finishRunRequest / cleanupDeferredTasks / runThisBeforeLoop / runThisAfterLoop) with the real EpollLoop and SelectLoop back ends and fd events runs in engine/symir.py on a harness-level kernel seam (epoll, select, eventfd counter, read/write). '
                'Sequential harness (both back ends): tasks submitted through runNext or runInLoop (symbolic) from the loop thread, one of them cancelled before the loop runs or from inside the first task of the running batch or never (symbolic), tasks submitted after the loop stopped; every task must run exactly once unless cancelled (then never), in submission order, on the loop/destroying thread. '
                'Threaded harness (blocking kernel seam): a second thread submits three tasks through the thread-safe entry point - the last one stops the loop - while the loop thread starts, iterates or sleeps in epoll_wait; the engine explores every interleaving at synchronisation granularity within the preemption bound, reports a loop that sleeps forever with a pending task as a deadlock (lost wake-up) and checks all shared accesses with vector clocks.',
    bounds='4 tasks + 2 late tasks sequentially on both back ends; 1 submitter thread with 3 tasks (+1 task submitted before the loop runs, symbolic) on EpollLoop with preemption bound 2 (3 in the thorough tier)',
    outside='more than one submitter thread; re-running a stopped loop (a stale has_commit_run_req_ after exit was reported by an independent reviewer and is not covered); SelectLoop in the threaded harness; the 100-generation drain cap; timers / fd events mixed with tasks',
    assumptions=['kernel seam: eventfd is a counter; a thread in epoll_wait with nothing ready sleeps until a write makes a registered descriptor ready', 'steady_clock is a harness-level virtual clock'],
    trusted_base=['clang++-14 -O1 IR', 'engine/symir.py thread scheduler, sync models (incl. recursive use of pthread mutex as modelled), vector-clock race detector', 'z3', 'harness/vp_kernel.hpp'])
