from vpdrv import Job
JOBS = []
# ---- Base64
for n in range(1, 7):
    JOBS.append(Job('b64.roundtrip_raw.n%d' % n, 'C19/base64.cpp', 'h_roundtrip_raw', 'A', defs={'N': n}, unwind=12, reach=['roundtrip_raw'], timeout=300, clause='base64 raw round trip, size, RFC 4648 reference, guards'))
    JOBS.append(Job('b64.short_capacity.n%d' % n, 'C19/base64.cpp', 'h_short_capacity', 'A', defs={'N': n}, unwind=12, reach=['short_capacity'], timeout=300, clause='base64 insufficient capacity refused without writes'))
for l in (0, 1, 2, 3, 4, 5, 8):
    JOBS.append(Job('b64.decode_any.l%d' % l, 'C19/base64.cpp', 'h_decode_any', 'A', defs={'L': l}, unwind=12, reach=['decode_any'], timeout=300, clause='base64 decoder on arbitrary bytes: bounded writes, table index in range, correct when accepted'))
for n in (1, 2, 3, 4):
    JOBS.append(Job('b64.string_api.n%d' % n, 'C19/base64.cpp', 'h_string_api', 'B', defs={'N': n}, reach=['string_api'], timeout=300, clause='base64 std::string/std::vector overloads'))
JOBS.append(Job('b64.string_decode_any.l4', 'C19/base64.cpp', 'h_string_decode_any', 'B', defs={'L': 4}, reach=['string_decode_any'], timeout=600, clause='base64 vector decoder on arbitrary bytes'))
# ---- scalable integer
JOBS.append(Job('si.roundtrip', 'C19/scalable_integer.cpp', 'h_si_roundtrip', 'A', unwind=14, reach=['si_roundtrip'], timeout=600, clause='scalable integer: all 2^64 values x capacity 0..12'))
JOBS.append(Job('si.parse_any', 'C19/scalable_integer.cpp', 'h_si_parse_any', 'A', unwind=14, reach=['si_parse_any'], timeout=600, clause='scalable integer parser on arbitrary 12 bytes, size 0..12'))
# ---- serializer
JOBS.append(Job('ser.step', 'C19/serializer.cpp', 'h_ser_step', 'A', unwind=22, reach=['ser_step'], timeout=900, clause='serializer one-step induction: one append of any kind from any position/capacity, then fetch'))
JOBS.append(Job('ser.roundtrip2', 'C19/serializer.cpp', 'h_ser_roundtrip', 'B', defs={'NF': 2}, reach=['ser_roundtrip'], timeout=3000, tier='thorough', clause='serializer/deserializer inverse on 2-field sequences, capacity symbolic'))
JOBS.append(Job('ser.truncated', 'C19/serializer.cpp', 'h_deser_truncated', 'A', unwind=18, reach=['deser_truncated'], timeout=600, clause='deserializer on truncated input: every fetch kind x remaining size'))
# ---- crc / checksum
for fn in ('crc16', 'crc32', 'sum8', 'sum16'):
    JOBS.append(Job('%s.n4' % fn, 'C19/crc.cpp', 'h_' + fn, 'A', defs={'NB': 4}, unwind=10, reach=[fn], timeout=600, clause=fn + ' == bitwise reference, data <= 4 bytes, any seed'))
    JOBS.append(Job('%s.n6' % fn, 'C19/crc.cpp', 'h_' + fn, 'A', defs={'NB': 6}, unwind=10, reach=[fn], timeout=1800, tier='thorough', clause=fn + ' == bitwise reference, data <= 6 bytes'))
# ---- string-level codecs (URL percent-encoding, hex string decoder)
for n in (1, 2):
    JOBS.append(Job('url.roundtrip.n%d' % n, 'C19/strcodec.cpp', 'h_url_roundtrip', 'B', defs={'N': n}, reach=['url_roundtrip'], timeout=900, clause='URL percent-codec: decode(encode(s)) == s, both modes, all byte strings of length %d' % n))
JOBS.append(Job('url.roundtrip.n3', 'C19/strcodec.cpp', 'h_url_roundtrip', 'B', defs={'N': 3}, reach=['url_roundtrip'], timeout=3400, tier='thorough', clause='URL percent-codec round trip, length 3'))
JOBS.append(Job('url.decode_any.n3', 'C19/strcodec.cpp', 'h_url_decode_any', 'B', defs={'N': 3}, reach=['url_decode_any'], timeout=900, clause='URL decoder on arbitrary 4 bytes: result or C++ exception'))
JOBS.append(Job('hex.decode_any.n2', 'C19/strcodec.cpp', 'h_hex_decode_any', 'B', defs={'N': 2}, reach=['hex_decode_any'], timeout=900, clause='hex string decoder (fixed buffer) on arbitrary <=4 bytes, capacity symbolic'))
JOBS.append(Job('hex.vector_any.n2', 'C19/strcodec.cpp', 'h_hex_vector_any', 'B', defs={'N': 2}, reach=['hex_vector_any'], timeout=900, clause='hex string decoder (vector, with/without delimiter) on arbitrary 3 bytes'))
META = dict(explanation='x', bounds='', outside='', assumptions=[], trusted_base=[])
