from vpdrv import Job
JOBS = []
# ---- Base64
for n in range(1, 7):
    JOBS.append(Job('b64.roundtrip_raw.n%d' % n, 'C19/base64.cpp', 'h_roundtrip_raw', 'A', defs={'N': n}, unwind=12, reach=['roundtrip_raw'], timeout=300, clause='base64 raw round trip, size, RFC 4648 reference, guards'))
    JOBS.append(Job('b64.short_capacity.n%d' % n, 'C19/base64.cpp', 'h_short_capacity', 'A', defs={'N': n}, unwind=12, reach=['short_capacity'], timeout=300, clause='base64 insufficient capacity refused without writes'))
for l in (0, 1, 2, 3, 4, 5, 8):
    JOBS.append(Job('b64.decode_any.l%d' % l, 'C19/base64.cpp', 'h_decode_any', 'A', defs={'L': l}, unwind=12, reach=['decode_any'], timeout=300, clause='base64 decoder on arbitrary bytes: bounded writes, table index in range, correct when accepted'))
for n in (1, 2, 3, 4):
    JOBS.append(Job('b64.string_api.n%d' % n, 'C19/base64.cpp', 'h_string_api', 'B', defs={'N': n}, reach=['string_api'], timeout=300, clause='base64 std::string/std::vector overloads'))
JOBS.append(Job('b64.string_decode_any.l4', 'C19/base64.cpp', 'h_string_decode_any', 'B', defs={'L': 4}, reach=['string_decode_any'], timeout=600, clause='base64 vector decoder on arbitrary bytes'))
# ---- scalable integer
JOBS.append(Job('si.roundtrip', 'C19/scalable_integer.cpp', 'h_si_roundtrip', 'A', unwind=14, reach=['si_roundtrip'], timeout=600, clause='scalable integer: all 2^64 values x capacity 0..12'))
JOBS.append(Job('si.parse_any', 'C19/scalable_integer.cpp', 'h_si_parse_any', 'A', unwind=14, reach=['si_parse_any'], timeout=600, clause='scalable integer parser on arbitrary 12 bytes, size 0..12'))
# ---- serializer
JOBS.append(Job('ser.step', 'C19/serializer.cpp', 'h_ser_step', 'A', unwind=22, reach=['ser_step'], timeout=900, clause='serializer one-step induction: one append of any kind from any position/capacity, then fetch'))
JOBS.append(Job('ser.roundtrip2', 'C19/serializer.cpp', 'h_ser_roundtrip', 'B', defs={'NF': 2}, reach=['ser_roundtrip'], timeout=3000, tier='thorough', clause='serializer/deserializer inverse on 2-field sequences, capacity symbolic'))
JOBS.append(Job('ser.truncated', 'C19/serializer.cpp', 'h_deser_truncated', 'A', unwind=18, reach=['deser_truncated'], timeout=600, clause='deserializer on truncated input: every fetch kind x remaining size'))
# ---- crc / checksum
for fn in ('crc16', 'crc32', 'sum8', 'sum16'):
    JOBS.append(Job('%s.n4' % fn, 'C19/crc.cpp', 'h_' + fn, 'A', defs={'NB': 4}, unwind=10, reach=[fn], timeout=600, clause=fn + ' == bitwise reference, data <= 4 bytes, any seed'))
    JOBS.append(Job('%s.n6' % fn, 'C19/crc.cpp', 'h_' + fn, 'A', defs={'NB': 6}, unwind=10, reach=[fn], timeout=1800, tier='thorough', clause=fn + ' == bitwise reference, data <= 6 bytes'))
# the 8-bit checksum's 16-bit accumulator only matters once the byte sum can pass 0xffff (>= 258 bytes): 290 bytes of 0xff + 8 symbolic bytes, symbolic length
JOBS.append(Job('sum8.long', 'C19/crc.cpp', 'h_sum8_long', 'A', defs={'NB': 8, 'NFIX': 290}, unwind=300, reach=['sum8_long'], timeout=900, clause='8-bit checksum == definition for every length <= 298 on inputs 0xff^290 ++ 8 arbitrary bytes (accumulator carry folding beyond 16 bits)'))
# ---- string-level codecs (URL percent-encoding, hex string decoder)
for n in (1, 2):
    JOBS.append(Job('url.roundtrip.n%d' % n, 'C19/strcodec.cpp', 'h_url_roundtrip', 'B', defs={'N': n}, reach=['url_roundtrip'], timeout=900, clause='URL percent-codec: decode(encode(s)) == s, both modes, all byte strings of length %d' % n))
JOBS.append(Job('url.roundtrip.n3', 'C19/strcodec.cpp', 'h_url_roundtrip', 'B', defs={'N': 3}, reach=['url_roundtrip'], timeout=3400, tier='thorough', clause='URL percent-codec round trip, length 3'))
JOBS.append(Job('url.decode_any.n3', 'C19/strcodec.cpp', 'h_url_decode_any', 'B', defs={'N': 3}, reach=['url_decode_any'], timeout=900, clause='URL decoder on arbitrary 4 bytes: result or C++ exception'))
JOBS.append(Job('hex.decode_any.n2', 'C19/strcodec.cpp', 'h_hex_decode_any', 'B', defs={'N': 2}, reach=['hex_decode_any'], timeout=900, clause='hex string decoder (fixed buffer) on arbitrary <=4 bytes, capacity symbolic'))
JOBS.append(Job('hex.vector_any.n2', 'C19/strcodec.cpp', 'h_hex_vector_any', 'B', defs={'N': 2}, reach=['hex_vector_any'], timeout=900, clause='hex string decoder (vector, with/without delimiter) on arbitrary 3 bytes'))
# ---- MD5 block feeding / padding (lengths and split points symbolic, content concrete)
JOBS.append(Job('md5.split.len52', 'C19/md5.cpp', 'h_md5_split', 'B', defs={'LBASE': 52, 'LSPAN': 7}, reach=['md5_split'], timeout=900, clause='MD5: lengths 52..59 x 6 split points vs independent RFC 1321 implementation'))
JOBS.append(Job('md5.split.len0', 'C19/md5.cpp', 'h_md5_split', 'B', defs={'LBASE': 0, 'LSPAN': 20}, reach=['md5_split'], timeout=3000, tier='thorough', clause='MD5: lengths 0..20'))
JOBS.append(Job('md5.split.len60', 'C19/md5.cpp', 'h_md5_split', 'B', defs={'LBASE': 60, 'LSPAN': 10}, reach=['md5_split'], timeout=3000, tier='thorough', clause='MD5: lengths 60..70'))
JOBS.append(Job('md5.split.len116', 'C19/md5.cpp', 'h_md5_split', 'B', defs={'LBASE': 116, 'LSPAN': 8}, reach=['md5_split'], timeout=3000, tier='thorough', clause='MD5: lengths 116..124 (three blocks)'))
META = dict(
    explanation='Bounded solver verdicts over the real codec sources (util/base64.cpp, scalable_integer.cpp, serializer.cpp, crc.cpp, checksum.cpp, string.cpp, http/url.cpp) compiled to LLVM IR from the working tree. '
                'Raw-buffer kernels are translated to C (engine/ir2c.py) and decided monolithically by CBMC (cadical): inputs, lengths, capacities and seeds are symbolic, outputs are compared with independent arithmetic references '
                '(RFC 4648 by arithmetic, bitwise CRC definitions, RFC 1071) and guard bytes around every output detect writes beyond the capacity; table indexing is covered by CBMC bounds checks. '
                'std::string / std::vector overloads and the URL / hex-string codecs are executed path-wise by engine/symir.py with z3.'
                ' Extended: the 8-bit checksum is also compared with its definition on inputs 0xff^290 ++ 8 symbolic bytes with a symbolic length (the 16-bit accumulator only matters once the byte sum passes 0xffff).',
    bounds='base64: raw length 1..6, decoder input length 0..5 and 8 (all 256 byte values), capacity symbolic; scalable integer: all 2^64 values, capacity 0..12, parser on arbitrary 12 bytes; serializer: one append/fetch of any kind from any position <= 16 (inductive), truncated fetch with <= 9 input bytes; ; sum8 long: 290 fixed + 8 symbolic bytes'
           'CRC/checksums: data <= 4 bytes (6 thorough), every seed; URL codec: strings of length 1..2 (3 thorough), decoder on arbitrary 4 bytes; hex decoder on arbitrary <= 4 bytes; MD5: message lengths 52..59 (0..20, 60..70, 116..124 thorough) x 6 split points, fixed content',
    outside='equivalence of the MD5 compression function and of AES-128 on symbolic data (monolithic miters did not finish in the design-phase probes; only MD5 buffering/padding/length encoding is claimed, for concrete content with symbolic length and split); RawDataToHexStr (iostream formatting flags are not modelled); inputs longer than the bounds; fully symbolic inputs of >= 258 bytes for the 8-bit checksum (did not finish in 15 min on any back end); Serializer over std::vector (resize path)',
    assumptions=['operator new never fails', 'isprint() follows the C locale', 'forming (not dereferencing) a one-before-begin pointer in appendPOD/fetchPOD reverse loops is not reported (standard-level UB no sanitizer confirms)'],
    trusted_base=['clang++-14 -O1 IR', 'engine/ir2c.py + cbmc 6.11 (cadical)', 'engine/symir.py + z3 and its std::string/vector/ctype models', 'engine/vp_models.c'])
