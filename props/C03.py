from vpdrv import Job
JOBS = []
for be in ('epoll', 'select'):
    JOBS.append(Job('%s.plain' % be, 'C03/fd_events.cpp', 'h_' + be, 'B', reach=[be], timeout=1700, clause='%s back end, 3 events on 2 descriptors (two sharing one), masks/modes/readiness symbolic, no mutation' % be))
    for a in range(3):
        JOBS.append(Job('%s.actor%d' % (be, a), 'C03/fd_events.cpp', 'h_' + be, 'B', defs={'ACTOR': a}, reach=[be], timeout=1700, clause='%s back end, event %d mutates (disable self / disable, enable, destroy another) inside its callback' % (be, a)))
JOBS.append(Job('agree.plain', 'C03/fd_events.cpp', 'h_agree', 'B', reach=['agree'], timeout=1700, clause='epoll vs select agreement without mutation'))
JOBS.append(Job('agree.actor0', 'C03/fd_events.cpp', 'h_agree', 'B', defs={'ACTOR': 0}, reach=['agree'], timeout=1700, clause='epoll vs select agreement with event 0 mutating, one descriptor ready'))
JOBS.append(Job('multi.epoll', 'C03/fd_events.cpp', 'h_multi_epoll', 'B', defs={'MPASS': 2}, reach=['multi_epoll'], timeout=1700, clause='epoll: 2 passes inside one runLoop(kForever), 3 persistent events (one on descriptor 0), readiness symbolic per pass, receive array starting at 2 entries so that the full-array growth step and the following pass are exercised'))
JOBS.append(Job('multi.select', 'C03/fd_events.cpp', 'h_multi_select', 'B', defs={'MPASS': 2}, reach=['multi_select'], timeout=1700, clause='select: 2 passes inside one runLoop(kForever), 3 persistent events (one on descriptor 0), readiness symbolic per pass'))
JOBS.append(Job('multi.epoll.p3', 'C03/fd_events.cpp', 'h_multi_epoll', 'B', defs={'MPASS': 3}, reach=['multi_epoll'], timeout=3400, tier='thorough', clause='epoll: 3 passes, small receive array'))
JOBS.append(Job('multi.select.p3', 'C03/fd_events.cpp', 'h_multi_select', 'B', defs={'MPASS': 3}, reach=['multi_select'], timeout=3400, tier='thorough', clause='select: 3 passes'))
META = dict(
    explanation='The real EpollLoop + EpollFdEvent and SelectLoop + SelectFdEvent (with CommonLoop, unordered_map/map bookkeeping and ObjectPool) run one real loop pass (runLoop(kOnce)) in engine/symir.py on a harness-level kernel seam (epoll_create1/epoll_ctl/epoll_wait, select, eventfd, read/write/close with level-triggered readiness set by the harness). '
                'Three events on two descriptors (two sharing one): subscription masks of the sharing events, one-shot/persistent, readiness of both descriptors, and what one event does inside its callback (disable itself; disable, enable or destroy another event) are symbolic. At every callback the event must be alive, enabled at dispatch (one-shot: already disabled), '
                'report a subscribed condition the descriptor is ready for; any invalid memory access or escaping exception is a violation; without mutation each ready subscribed event is called exactly once. The same scenario is run on both back ends in one path and the callback counts and reported condition sets must agree whenever the outcome cannot depend on the order in which ready descriptors are served.',
    bounds='3 events, 2 descriptors, 1 pass, one mutating callback (one solver run per acting event); masks of events 0/1 over {R,W,RW}, event 2 reads; one-shot symbolic for event 0 (all three without mutation)',
    outside='kExceptEvent / EPOLLHUP / EPOLLERR; more than one pass; more than 2 descriptors; closing a descriptor inside a callback (EBADF path of select); real kernel edge cases',
    assumptions=['kernel seam is level-triggered and reports exactly the registered conditions that are ready', 'object pool blocks are reused like malloc blocks (use after release is reported by the engine memory model)'],
    trusted_base=['clang++-14 -O1 IR', 'engine/symir.py (+ unordered_map rehash-policy model, rb-tree model)', 'z3', 'harness/vp_kernel.hpp'])
