from vpdrv import Job
JOBS = [
    Job('timers.n2.s2', 'C02/timers.cpp', 'h_timers', 'B', defs={'NT': 2, 'NSTEP': 2}, reach=['timers'], timeout=1700, clause='2 timers (modes and timer 0 callback action symbolic), 2 symbolic steps over {advance+pass, enable, disable, destroy}'),
    Job('timers.n3.s1', 'C02/timers.cpp', 'h_timers', 'B', defs={'NT': 3, 'NSTEP': 1}, reach=['timers'], timeout=1700, clause='3 timers (two sharing deadlines), 1 symbolic step'),
    Job('timers.n2.s3', 'C02/timers.cpp', 'h_timers', 'B', defs={'NT': 2, 'NSTEP': 3}, reach=['timers'], timeout=3400, tier='thorough', clause='2 timers, 3 symbolic steps'),
    Job('timers.n3.s2', 'C02/timers.cpp', 'h_timers', 'B', defs={'NT': 3, 'NSTEP': 2}, reach=['timers'], timeout=3400, tier='thorough', clause='3 timers, 2 symbolic steps'),
    Job('timer.long', 'C02/timers.cpp', 'h_timer_long', 'B', reach=['timer_long'], timeout=900, clause='one timer with ANY interval 1 ms .. 2^34 ms (one-shot or persistent): not before t+d, at t+d, second period not before t+2d'),
    Job('timer.pool', 'C02/timers.cpp', 'h_timer_pool', 'B', reach=['timer_pool'], timeout=900, clause='eventx::TimerPool on the real loop timers: doAfter(20) cancels (or not) a doAfter/doEvery(21) task from inside its callback; clock advances 19/20/21/60 twice: a cancelled task never runs, the others run for every due period'),
]
META = dict(
    explanation='Path-wise symbolic execution (engine/symir.py, z3) of the real CommonLoop timer code (addTimer / deleteTimer / handleExpiredTimers / getWaitTime with std::push_heap/pop_heap/make_heap), TimerEventImpl, Cabinet and ObjectPool. '
                'CommonLoop is instantiated through a sequential test double that only stubs the pure-virtual back-end entry points; the monotonic clock is a harness-level definition of steady_clock::now() (virtual time, no source hook needed). '
                'Timer modes, what timer 0 does inside its callback (nothing / disable, enable or destroy another timer / restart itself) and a script of steps (clock advance by boundary amounts incl. several periods late followed by a loop pass; enable; disable; destroy; re-initialize) are symbolic. '
                'Ghost per timer (enabled-at, invocations) checks: never before t+k*d, no period skipped after a pass, deadline order within a pass, nothing fires after disable/destroy, one-shot disabled in its callback, isEnabled() consistent, no bookkeeping left behind.'
                ' Extended: one timer with a fully symbolic interval (1 ms .. 2^34 ms, one-shot or persistent) is never early and fires at t+d / t+2d; eventx::TimerPool (doAfter / doEvery / cancel / cleanup) runs on the same loop double reported as running, with one task cancelling another from inside its callback in the same pass.',
    bounds='2 timers with 2 symbolic steps and 3 timers (two sharing deadlines) with 1 step in the quick tier; 3 / 2 steps in the thorough tier; intervals 10/10/15 ms, clock advances from {9,10,11,25,47} ms; single timer: any interval up to 2^34 ms; TimerPool: 2 tasks (20 / 21 ms), 2 clock advances from {19,20,21,60}',
    outside='multi-timer scripts with symbolic interval values (heap comparisons on symbolic deadlines fork too widely for the path-wise engine); TimerFd; interval 0; 2^64 ms wrap; the real epoll/select wait',
    assumptions=['the loop pass order handleExpiredTimers(); handleNextFunc() of the real back ends', 'a timer is not destroyed from inside its own callback (documented misuse, asserted by the library)'],
    trusted_base=['clang++-14 -O1 IR', 'engine/symir.py', 'z3', 'harness/vp_seqloop.hpp'])
