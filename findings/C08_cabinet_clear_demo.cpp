#include <tbox/base/cabinet.hpp>
#include <cstdio>
int main(){ tbox::cabinet::Cabinet<int> c; int a=1,b=2; auto t1=c.alloc(&a); c.clear(); auto t2=c.alloc(&b);
 if (c.at(t1)!=nullptr){ printf("stale token resolves to %d after clear+alloc\n", *c.at(t1)); return 1;} printf("ok\n"); return 0; }
