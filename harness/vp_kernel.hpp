// Harness-level kernel seam for the event back ends: epoll, select, eventfd, pipe-less read/write/close.
// Level-triggered readiness: the harness sets vk::ready[fd] (bit 0 readable, bit 1 writable); epoll_wait()/select() report the
// registered/requested conditions that are ready. The eventfd used by CommonLoop to wake itself is modelled as a counter.
#ifndef VP_KERNEL_HPP
#define VP_KERNEL_HPP
#include <sys/epoll.h>
#include <sys/select.h>
#include <sys/eventfd.h>
#include <unistd.h>
#include <errno.h>
#ifdef VK_BLOCKING
#include <mutex>
#include <condition_variable>
#endif
namespace vk {
#ifdef VK_BLOCKING
static std::mutex m; static std::condition_variable cv;      // the kernel's own serialisation; a thread in epoll_wait()/select() with nothing ready sleeps here
#endif
enum { NFD = 16, EVFD = 9 };
static unsigned ready[NFD];                 // harness-controlled readiness of ordinary descriptors
static unsigned reg_events[NFD]; static void *reg_ptr[NFD]; static bool reg_on[NFD];
static unsigned long evfd_counter; static int closes[NFD]; static int epoll_waits, selects;
static void (*on_wait)() = nullptr;       // harness hook: runs at the start of every epoll_wait()/select() (= once per loop pass) of the non-blocking seam
static void reset() { for (int i = 0; i < NFD; i++) { ready[i] = 0; reg_events[i] = 0; reg_ptr[i] = nullptr; reg_on[i] = false; closes[i] = 0; } evfd_counter = 0; epoll_waits = selects = 0; }
static unsigned cond(int fd) { if (fd == EVFD) return evfd_counter ? 1u : 0u; return ready[fd]; }
}
extern "C" {
int epoll_create1(int) { return 3; }
int epoll_ctl(int, int op, int fd, struct epoll_event *ev) {
    if (fd < 0 || fd >= vk::NFD) { errno = EBADF; return -1; }
    if (op == EPOLL_CTL_DEL) { vk::reg_on[fd] = false; return 0; }
    vk::reg_on[fd] = true; vk::reg_events[fd] = ev->events; vk::reg_ptr[fd] = ev->data.ptr; return 0;
}
static int vk_epoll_collect(struct epoll_event *evs, int maxevents) {
    int n = 0;
    for (int fd = 0; fd < vk::NFD && n < maxevents; fd++) {
        if (!vk::reg_on[fd]) continue;
        unsigned c = vk::cond(fd), got = 0;
        if ((vk::reg_events[fd] & EPOLLIN) && (c & 1)) got |= EPOLLIN;
        if ((vk::reg_events[fd] & EPOLLOUT) && (c & 2)) got |= EPOLLOUT;
        if (got) { evs[n].events = got; evs[n].data.ptr = vk::reg_ptr[fd]; n++; }
    }
    return n;
}
int epoll_wait(int, struct epoll_event *evs, int maxevents, int timeout) {
#ifdef VK_BLOCKING
    std::unique_lock<std::mutex> lk(vk::m);
    vk::epoll_waits++;
    int n = vk_epoll_collect(evs, maxevents);
    while (n == 0 && timeout != 0) { vk::cv.wait(lk); n = vk_epoll_collect(evs, maxevents); }    // sleeps until a descriptor becomes ready (no timers in these harnesses)
    return n;
#else
    (void)timeout; vk::epoll_waits++; if (vk::on_wait) vk::on_wait(); return vk_epoll_collect(evs, maxevents);
#endif
}
static int vk_select_collect(int nfds, fd_set *r, fd_set *w, fd_set *e) {
    int n = 0;
    for (int fd = 0; fd < nfds && fd < vk::NFD; fd++) {
        unsigned c = vk::cond(fd);
        if (r && FD_ISSET(fd, r)) { if (c & 1) n++; else FD_CLR(fd, r); }
        if (w && FD_ISSET(fd, w)) { if (c & 2) n++; else FD_CLR(fd, w); }
        if (e && FD_ISSET(fd, e)) FD_CLR(fd, e);
    }
    return n;
}
int select(int nfds, fd_set *r, fd_set *w, fd_set *e, struct timeval *tv) {
#ifdef VK_BLOCKING
    std::unique_lock<std::mutex> lk(vk::m);
    vk::selects++;
    fd_set r0, w0; FD_ZERO(&r0); FD_ZERO(&w0); if (r) r0 = *r; if (w) w0 = *w;
    int n = vk_select_collect(nfds, r, w, e);
    while (n == 0 && tv == nullptr) { vk::cv.wait(lk); if (r) *r = r0; if (w) *w = w0; n = vk_select_collect(nfds, r, w, e); }   // no timeout: sleeps until a watched descriptor becomes ready
    return n;
#else
    vk::selects++;
    if (vk::on_wait) vk::on_wait();
    return vk_select_collect(nfds, r, w, e);
#endif
}
int eventfd(unsigned int initval, int) { vk::evfd_counter = initval; return vk::EVFD; }       // a NEW eventfd object: its counter starts at initval
ssize_t write(int fd, const void *p, size_t n) {
#ifdef VK_BLOCKING
    std::lock_guard<std::mutex> lk(vk::m);
#endif
    if (fd == vk::EVFD && n == 8) { vk::evfd_counter += *static_cast<const unsigned long *>(p);
#ifdef VK_BLOCKING
        vk::cv.notify_all();
#endif
        return 8; }
    return (ssize_t)n; }
ssize_t read(int fd, void *p, size_t n) {
#ifdef VK_BLOCKING
    std::lock_guard<std::mutex> lk(vk::m);
#endif
    if (fd == vk::EVFD && n == 8) { if (!vk::evfd_counter) { errno = EAGAIN; return -1; } *static_cast<unsigned long *>(p) = vk::evfd_counter; vk::evfd_counter = 0; return 8; } errno = EAGAIN; return -1; }
int close(int fd) { if (fd >= 0 && fd < vk::NFD) vk::closes[fd]++; return 0; }
}
#endif
