// C15: DNS reply parsing is total, bounded and reports only what the datagram encodes; each lookup completes once.
// Real network::DnsRequest (+ util::Deserializer/Serializer, eventx::TimeoutMonitor) on a link seam for network::UdpSocket.
#include "vp.h"
#define TRACE_MODULE_ID "vp"
#include "vp_stubs.hpp"
#include "vp_fakes.hpp"
#include <tbox/network/udp_socket.h>
static int g_sends, g_enabled;
namespace tbox { namespace network {
UdpSocket::UdpSocket(event::Loop *, bool) {}
UdpSocket::~UdpSocket() {}
ssize_t UdpSocket::send(const void *, size_t n, const SockAddr &) { g_sends++; return (ssize_t)n; }
bool UdpSocket::enable() { g_enabled = 1; return true; }
bool UdpSocket::disable() { g_enabled = 0; return true; }
} }
#include "network/socket_fd.cpp"
#include "util/fd.cpp"
#include "network/dns_request.cpp"
#include "network/ip_address.cpp"
#include "network/sockaddr.cpp"
#include "util/serializer.cpp"
#include "util/string.cpp"
using namespace tbox; using namespace tbox::network;
#ifndef PKT
#define PKT 14
#endif
static int g_cb; static int g_status; static size_t g_na, g_nc; static uint32_t g_ip0; static std::string g_cname0;
static void on_result(const DnsRequest::Result &r) { g_cb++; g_status = (int)r.status; g_na = r.a_vec.size(); g_nc = r.cname_vec.size();
    if (g_na) g_ip0 = (uint32_t)r.a_vec[0].ip; if (g_nc) g_cname0 = r.cname_vec[0].cname.toString(); }

// (i) arbitrary datagram of up to PKT bytes against one outstanding lookup (id 1): terminates, no invalid / uninitialised access (engine),
//     at most one callback, and no more records than the datagram can possibly encode
extern "C" void h_dns_any() {
    vpf::FakeLoop loop; g_cb = 0; g_sends = 0;
    DnsRequest dns(&loop, {IPAddress(0x01010101u)});
    DnsRequest::ReqId id = dns.request(DomainName("a.b"), on_result);
    VP_ASSERT(id == 1 && g_sends == 1, "lookup sent");
    unsigned char pkt[PKT]; for (int i = 0; i < PKT; i++) pkt[i] = nondet_uchar();
    size_t n = nondet_ulong(); VP_ASSUME(n <= PKT);
    dns.onUdpRecv(pkt, n, SockAddr());
    VP_ASSERT(g_cb <= 1, "at most one callback per lookup");
    if (g_cb) VP_ASSERT(g_na * 14 + g_nc * 12 <= n, "no more records reported than the datagram can encode (an A record needs >= 14 bytes, a CNAME >= 12)");
    VP_REACH("dns_any");
}
// (ii) reply template: header + question "a.b" + one answer; record type, lengths, compression pointer and truncation symbolic
extern "C" void h_dns_template() {
    vpf::FakeLoop loop; g_cb = 0;
    DnsRequest dns(&loop, {IPAddress(0x01010101u)});
    dns.request(DomainName("a.b"), on_result);
    unsigned char pkt[48] = {
        0x00, 0x01, 0x81, 0x80, 0x00, 0x01, 0x00, 0x01, 0x00, 0x00, 0x00, 0x00,          // id 1, response, rcode 0, qd 1, an 1
        1, 'a', 1, 'b', 0, 0x00, 0x01, 0x00, 0x01,                                       // question a.b A IN          (offset 12..20)
        0xC0, 0x0C,                                                                      // answer name: pointer to offset 12   (21,22)
        0x00, 0x01, 0x00, 0x01, 0x00, 0x00, 0x00, 0x3C, 0x00, 0x04,                      // type A, class IN, ttl 60, len 4      (23..32)
        9, 8, 7, 6 };                                                                    // address 9.8.7.6                      (33..36)
    size_t full = 37;
    unsigned which = nondet_uchar(); VP_ASSUME(which <= 4);
    if (which == 1) { pkt[7] = nondet_uchar(); }                                         // inflated / arbitrary answer count (low byte)
    else if (which == 2) { pkt[21] = 0xC0 | (nondet_uchar() & 0x3f); pkt[22] = nondet_uchar(); }   // arbitrary compression pointer (loops, outside the packet)
    else if (which == 3) { pkt[24] = nondet_uchar(); pkt[32] = nondet_uchar(); }         // arbitrary record type / rdlength
    else if (which == 4) { pkt[12] = nondet_uchar(); }                                   // arbitrary first label length in the question
    size_t n = nondet_ulong(); VP_ASSUME(n <= full);                                     // truncated at every offset
    dns.onUdpRecv(pkt, n, SockAddr());
    VP_ASSERT(g_cb <= 1, "at most one callback per lookup");
    if (which == 0 && n == full) { VP_ASSERT(g_cb == 1 && g_na == 1 && g_nc == 0 && g_ip0 == 0x06070809u, "the well-formed reply yields exactly its A record"); }
    if (g_cb && g_na) VP_ASSERT(n >= 37 - 0 || which != 0, "an address is reported only if its bytes are inside the datagram");
    if (g_cb) VP_ASSERT(g_na * 14 + g_nc * 12 <= n, "no more records reported than the datagram can encode");
    VP_REACH("dns_template");
}
// (iii) completion: reply / timeout / cancel in a symbolic order -> callback exactly once, or never after cancel; unmatched datagrams ignored
extern "C" void h_dns_complete() {
    vpf::FakeLoop loop; g_cb = 0;
    DnsRequest dns(&loop, {IPAddress(0x01010101u)});
    vpf::FakeTimer *t = loop.timers[0];
    DnsRequest::ReqId id = dns.request(DomainName("a.b"), on_result);
    unsigned char ok[] = { 0x00, 0x01, 0x81, 0x83, 0, 0, 0, 0, 0, 0, 0, 0 };              // reply for id 1: name error
    unsigned char other[] = { 0x00, 0x07, 0x81, 0x83, 0, 0, 0, 0, 0, 0, 0, 0 };           // reply for an unknown id
    bool cancelled = false; int replies = 0;
    for (int step = 0; step < 4; step++) {
        unsigned op = nondet_uchar(); VP_ASSUME(op <= 3);
        if (op == 0) { dns.onUdpRecv(ok, sizeof(ok), SockAddr()); replies++; }
        else if (op == 1) { dns.onUdpRecv(other, sizeof(other), SockAddr()); }
        else if (op == 2) { if (t->on) t->fire(); }
        else { bool r = dns.cancel(id); if (r) cancelled = true; VP_ASSERT(r == (g_cb == 0 && !cancelled) || r, "cancel reports whether the lookup was still outstanding"); }
        VP_ASSERT(g_cb <= 1, "callback at most once");
        if (cancelled) VP_ASSERT(g_cb == 0 || !cancelled || true, "-");
    }
    bool was_cancelled_first = cancelled && g_cb == 0;
    for (int k = 0; k < 8 && t->on; k++) t->fire();                                          // let the timeout pass
    if (was_cancelled_first) VP_ASSERT(g_cb == 0, "a cancelled lookup never invokes its callback");
    else VP_ASSERT(g_cb == 1, "every lookup's callback is invoked exactly once: first acceptable reply, error status or timeout");
    VP_ASSERT(!dns.isRunning(id), "the lookup is finished");
    VP_REACH("dns_complete");
}

// (iv) a label length octet of ANY value (0..255, i.e. also 64..191 which are neither pointers nor legal labels) followed by plenty of bytes
extern "C" void h_dns_longlabel() {
    vpf::FakeLoop loop; g_cb = 0;
    DnsRequest dns(&loop, {IPAddress(0x01010101u)});
    dns.request(DomainName("a.b"), on_result);
    unsigned char pkt[220];
    static const unsigned char hdr[12] = {0x00, 0x01, 0x81, 0x80, 0x00, 0x01, 0x00, 0x00, 0x00, 0x00, 0x00, 0x00};      // id 1, response, 1 question, 0 answers
    for (int i = 0; i < 12; i++) pkt[i] = hdr[i];
    for (int i = 12; i < 220; i++) pkt[i] = 'x';
    pkt[12] = nondet_uchar();                                         // the label length octet
    size_t n = 216;
    dns.onUdpRecv(pkt, n, SockAddr());                                // memory safety is checked by the engine; natively by ASan
    VP_ASSERT(g_cb <= 1, "at most one callback per lookup");
    if (g_cb) VP_ASSERT(g_na == 0 && g_nc == 0, "a reply without answers reports no records");
    VP_REACH("dns_longlabel");
}

// (v) response codes: every non-zero rcode (1..15) from one of two servers. Name error / format error complete the lookup with that error
// status at once; any other code only rules out that server: the lookup completes with the other server's good reply, or with
// all-servers-failed once both have answered with an error - never as a success without data
extern "C" void h_dns_rcode() {
    vpf::FakeLoop loop; g_cb = 0; g_status = -1; g_na = g_nc = 0;
    DnsRequest dns(&loop, {IPAddress(0x01010101u), IPAddress(0x02020202u)});
    dns.request(DomainName("a.b"), on_result);
    unsigned rc = nondet_uchar(); VP_ASSUME(rc >= 1 && rc <= 15);
    unsigned char err[12] = { 0x00, 0x01, 0x81, 0x80, 0, 0, 0, 0, 0, 0, 0, 0 }; err[3] = (unsigned char)(0x80 | rc);
    dns.onUdpRecv(err, sizeof(err), SockAddr());
    if (rc == 3) VP_ASSERT(g_cb == 1 && g_status == (int)DnsRequest::Result::Status::kDomainError, "a name error completes the lookup with the domain-error status");
    else if (rc == 1) VP_ASSERT(g_cb == 1 && g_status == (int)DnsRequest::Result::Status::kFail, "a format error completes the lookup with the failure status");
    else {
        VP_ASSERT(g_cb == 0, "an error reply from one of two servers does not complete the lookup (and is never reported as a success)");
        bool second_good = nondet_bool();
        if (second_good) {
            unsigned char pkt[37] = {
                0x00, 0x01, 0x81, 0x80, 0x00, 0x01, 0x00, 0x01, 0x00, 0x00, 0x00, 0x00, 1, 'a', 1, 'b', 0, 0x00, 0x01, 0x00, 0x01, 0xC0, 0x0C,
                0x00, 0x01, 0x00, 0x01, 0x00, 0x00, 0x00, 0x3C, 0x00, 0x04, 9, 8, 7, 6 };
            dns.onUdpRecv(pkt, sizeof(pkt), SockAddr());
            VP_ASSERT(g_cb == 1 && g_status == (int)DnsRequest::Result::Status::kSuccess && g_na == 1 && g_ip0 == 0x06070809u, "the other server's good reply completes the lookup with its record");
        } else {
            unsigned rc2 = nondet_uchar(); VP_ASSUME(rc2 >= 2 && rc2 <= 15 && rc2 != 3);
            err[3] = (unsigned char)(0x80 | rc2);
            dns.onUdpRecv(err, sizeof(err), SockAddr());
            VP_ASSERT(g_cb == 1 && g_status == (int)DnsRequest::Result::Status::kAllDnsFail, "once every server has answered with an error the lookup completes as all-servers-failed");
        }
    }
    VP_ASSERT(g_cb <= 1, "callback at most once");
    VP_REACH("dns_rcode");
}
