// C15 (datagram delivery): the UDP socket hands its receive callback exactly the bytes that were received into its buffer - never a length
// beyond the buffer (e.g. a kernel-reported real length of a truncated datagram), never bytes that were not written by the kernel.
// Real network/udp_socket.cpp + socket_fd.cpp + util/fd.cpp on a fake loop; recvfrom() is a harness-level seam with the kernel's contract.
#include "vp.h"
#define TRACE_MODULE_ID "vp"
#include "vp_stubs.hpp"
#include "vp_fakes.hpp"
#include <sys/socket.h>
#include <netinet/in.h>
#include <unistd.h>
#include <fcntl.h>
#include <errno.h>
static unsigned long g_dgram;                     // real size of the datagram waiting in the kernel
static size_t g_buf_len; static const unsigned char *g_buf; static int g_flags;
extern "C" {
int socket(int, int, int) noexcept { return 5; }
int setsockopt(int, int, int, const void *, socklen_t) noexcept { return 0; }
int fcntl(int, int, ...) { return 0; }
int close(int) { return 0; }
ssize_t recvfrom(int, void *buf, size_t len, int flags, struct sockaddr *addr, socklen_t *alen) {
    g_buf = static_cast<const unsigned char *>(buf); g_buf_len = len; g_flags = flags;
    size_t k = g_dgram < len ? g_dgram : len;                              // the kernel writes at most len bytes; the rest of the datagram is discarded
    unsigned char *p = static_cast<unsigned char *>(buf);
    for (size_t i = 0; i < k; i++) p[i] = (unsigned char)(i * 7 + 1);
    if (addr && alen && *alen >= sizeof(struct sockaddr_in)) { struct sockaddr_in a; a.sin_family = AF_INET; a.sin_port = 0x3500; a.sin_addr.s_addr = 0x01010101; *reinterpret_cast<struct sockaddr_in *>(addr) = a; *alen = sizeof(a); }
    if (g_dgram == 0) { errno = EAGAIN; return -1; }
    return (ssize_t)((flags & MSG_TRUNC) ? g_dgram : k);                  // MSG_TRUNC: the REAL length is returned even when it was longer than the buffer
}
}
#include "network/udp_socket.cpp"
#include "network/socket_fd.cpp"
#include "network/sockaddr.cpp"
#include "network/ip_address.cpp"
#include "util/fd.cpp"
#include "util/string.cpp"
using namespace tbox; using namespace tbox::network;
static int g_calls; static size_t g_got;
extern "C" void h_udp_recv() {
    vpf::FakeLoop loop; g_calls = 0; g_got = 0;
    UdpSocket udp(&loop);
    udp.setRecvCallback([](const void *p, size_t n, const SockAddr &) {
        g_calls++; g_got = n;
        VP_ASSERT(p == g_buf && n <= g_buf_len, "the callback is never told a length beyond the receive buffer");
        const unsigned char *c = static_cast<const unsigned char *>(p);
        if (n > 0) { VP_ASSERT(c[0] == 1 && c[n - 1] == (unsigned char)((n - 1) * 7 + 1), "first and last reported byte are bytes the kernel wrote (an out-of-buffer or uninitialised read is reported by the engine)"); }
    });
    VP_ASSERT(udp.enable(), "enable");
    static const unsigned long SIZES[8] = {0, 1, 100, 4095, 4096, 4097, 5633, 65507};
    unsigned k = nondet_uchar(); VP_ASSUME(k < 8); g_dgram = SIZES[vp_concretize(k)];
    loop.fdevs[0]->fire(event::FdEvent::kReadEvent);
    VP_ASSERT(g_calls == (g_dgram ? 1 : 0), "one callback per datagram received");
    if (g_calls) VP_ASSERT(g_got == (g_dgram < g_buf_len ? g_dgram : g_buf_len), "the reported length is the number of bytes received into the buffer");
    VP_REACH("udp_recv");
}
