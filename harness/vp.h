// Harness API shared by all three back ends:
//   engine A (ir2c + CBMC), engine B (symir + z3), native replay (g++ + sanitizers, engine/replay_rt.cpp).
#ifndef VP_H
#define VP_H
#include <stddef.h>
#include <stdint.h>
extern "C" {
unsigned char  nondet_uchar() noexcept;
unsigned short nondet_ushort() noexcept;
unsigned int   nondet_uint() noexcept;
unsigned long  nondet_ulong() noexcept;
bool           nondet_bool() noexcept;
void __CPROVER_assume(bool) noexcept;
void __CPROVER_assert(bool, const char *) noexcept;
void vp_global_ctors() noexcept;   // runs the TU's static initialisers (engines); no-op natively (already run)
bool vp_false() noexcept;          // opaque 'false'
void vp_note(const char *tag, unsigned long v) noexcept;
unsigned long vp_concretize(unsigned long v) noexcept;      // engine B: continue with one path per feasible value of v; identity elsewhere   // trace value for evidence / replay comparison
}
#define VP_ASSERT(c, msg) __CPROVER_assert((c), msg)
#define VP_ASSUME(c) __CPROVER_assume(c)
// reachability witness: must be reported FAILED/reached by the engine, otherwise the harness is vacuous
#define VP_REACH(tag) __CPROVER_assert(vp_false(), "WITNESS:" tag)
#endif
