// C02: timers never fire early, never skip a period, never fire after disable/destroy, fire in deadline order.
// Real CommonLoop timer heap + TimerEventImpl + Cabinet + ObjectPool on the sequential loop double with a virtual clock.
#include "vp.h"
#define TRACE_MODULE_ID "vp"
#include "vp_stubs.hpp"
#include "vp_seqloop.hpp"
using namespace tbox; using namespace tbox::event;
#ifndef NT
#define NT 2
#endif
#ifndef NSTEP
#define NSTEP 3
#endif
static const unsigned long D[3] = {10, 10, 15};                 // intervals (two timers share deadlines)
static TimerEvent *T[NT]; static bool alive[NT], en[NT], persist[NT];
static unsigned long t0[NT]; static unsigned long fired[NT];     // enabled at, invocations since then
static unsigned char act[NT];                                     // what timer i's callback does: 0 none, 1 disable other, 2 enable other, 3 destroy other, 4 restart self
static unsigned long last_deadline_in_pass; static bool in_pass;
static void g_enable(int i) { if (alive[i] && T[i]->enable() && !en[i]) { en[i] = true; t0[i] = g_now_ms; fired[i] = 0; } }
static void g_disable(int i) { if (alive[i]) { T[i]->disable(); en[i] = false; } }
static void g_destroy(int i) { if (alive[i]) { delete T[i]; T[i] = nullptr; alive[i] = false; en[i] = false; } }
static void on_fire(int i) {
    VP_ASSERT(alive[i], "a destroyed timer is never invoked");
    VP_ASSERT(en[i], "a disabled timer is never invoked");
    unsigned long deadline = t0[i] + (fired[i] + 1) * D[i];
    VP_ASSERT(g_now_ms >= deadline, "the k-th invocation is not before t + k*d (never early)");
    VP_ASSERT(!in_pass || deadline >= last_deadline_in_pass, "timers due in the same pass fire in deadline order");
    last_deadline_in_pass = deadline;
    fired[i]++;
    if (!persist[i]) { en[i] = false; VP_ASSERT(!T[i]->isEnabled(), "a one-shot timer is disabled when its callback runs"); }
    int o = (i + 1) % NT;
    switch (act[i]) {
    case 1: g_disable(o); break;
    case 2: g_enable(o); break;
    case 3: g_destroy(o); break;
    case 4: g_disable(i); g_enable(i); break;                     // re-enable self: a fresh full interval starts now
    default: break;
    }
}
extern "C" void h_timers() {
    vps::SeqLoop loop; g_now_ms = 1000;
    for (int i = 0; i < NT; i++) {
        T[i] = loop.newTimerEvent("t"); alive[i] = true; en[i] = false; fired[i] = 0;
        persist[i] = nondet_bool();
        unsigned a = 0; if (i == 0) { a = nondet_uchar(); VP_ASSUME(a <= 4); }    // timer 0's callback acts on the others (or restarts itself)
        act[i] = (unsigned char)a;
        VP_ASSERT(T[i]->initialize(std::chrono::milliseconds(D[i]), persist[i] ? Event::Mode::kPersist : Event::Mode::kOneshot), "initialize");
        T[i]->setCallback([i] { on_fire(i); });
    }
    for (int i = 0; i < NT; i++) g_enable(i);
    for (int k = 0; k < NSTEP; k++) {
        unsigned op = nondet_uchar(); VP_ASSUME(op <= 4);
        unsigned w = nondet_uchar(); VP_ASSUME(w < NT);
        if (op == 0) {                                            // the clock advances (also several periods at once: the loop wakes late), then one pass
            static const unsigned long ADV[] = {9, 10, 11, 25, 47};
            unsigned a = nondet_uchar(); VP_ASSUME(a < 5);
            g_now_ms += ADV[a];
            VP_ASSERT(loop.getWaitTime() <= 1000, "wait time is bounded by the nearest deadline");
            in_pass = true; last_deadline_in_pass = 0;
            loop.pass();
            in_pass = false;
            for (int i = 0; i < NT; i++) if (alive[i] && en[i])
                VP_ASSERT(t0[i] + (fired[i] + 1) * D[i] > g_now_ms, "after a pass every enabled timer has fired for every period that is due (no period skipped, one-shot fired)");
        } else if (op == 1) g_enable((int)w);
        else if (op == 2) g_disable((int)w);
        else if (op == 3) g_destroy((int)w);
        else if (alive[w]) {                                      // initialize again with the same settings: the timer is disabled, a later enable starts a fresh interval
            VP_ASSERT(T[w]->initialize(std::chrono::milliseconds(D[w]), persist[w] ? Event::Mode::kPersist : Event::Mode::kOneshot), "re-initialize");
            en[w] = false;
        }
        for (int i = 0; i < NT; i++) if (alive[i]) VP_ASSERT(T[i]->isEnabled() == en[i], "isEnabled() agrees with the enable/disable/one-shot history");
    }
    for (int i = 0; i < NT; i++) g_destroy(i);
    loop.pass();                                                   // deferred frees
    VP_ASSERT(loop.timer_min_heap_.empty() && loop.timer_cabinet_.size() == 0, "no timer bookkeeping is left behind");
    loop.cleanup();
    VP_REACH("timers");
}

// long intervals: never early whatever the interval - also 2^32 ms and beyond (49.7 days), for one-shot and persistent timers
extern "C" void h_timer_long() {
    vps::SeqLoop loop; g_now_ms = 1000;
    unsigned long d = nondet_ulong(); VP_ASSUME(d >= 1 && d <= (1ul << 34));
    bool per = nondet_bool();
    static int fired_l; fired_l = 0;
    TimerEvent *t = loop.newTimerEvent("long");
    VP_ASSERT(t->initialize(std::chrono::milliseconds(d), per ? Event::Mode::kPersist : Event::Mode::kOneshot), "initialize");
    t->setCallback([] { fired_l++; });
    VP_ASSERT(t->enable(), "enable");
    unsigned long a = nondet_ulong(); VP_ASSUME(a < d);
    g_now_ms = 1000 + a; loop.pass();
    VP_ASSERT(fired_l == 0, "a timer never fires before t + d, whatever the interval (also >= 2^32 ms)");
    g_now_ms = 1000 + d; loop.pass();
    VP_ASSERT(fired_l == 1, "the timer fires once its interval has passed");
    if (per) {
        unsigned long b = nondet_ulong(); VP_ASSUME(b < d);
        g_now_ms = 1000 + d + b; loop.pass();
        VP_ASSERT(fired_l == 1, "the second invocation of a persistent timer is not before t + 2d");
        g_now_ms = 1000 + 2 * d; loop.pass();
        VP_ASSERT(fired_l == 2, "no period is skipped");
    } else VP_ASSERT(!t->isEnabled(), "a one-shot timer is disabled after it fired");
    delete t; loop.pass(); loop.cleanup();
    VP_REACH("timer_long");
}
// timer pool (eventx::TimerPool on the real loop timers, loop reported as running so that deletions are deferred): a task cancelled from
// inside another task's callback never runs afterwards - also when both were due in the same pass
#include "eventx/timer_pool.cpp"
struct DummyFd : FdEvent { DummyFd() : FdEvent("dummy") {} bool initialize(int, short, Mode) override { return true; } void setCallback(CallbackFunc &&) override {} bool isEnabled() const override { return true; }
    bool enable() override { return true; } bool disable() override { return true; } Loop *getLoop() const override { return nullptr; } };
static eventx::TimerPool *TP; static eventx::TimerPool::TimerToken tp_tok1; static int tp_ran[2]; static bool tp_cancelled, tp_do_cancel;
extern "C" void h_timer_pool() {
    vps::SeqLoop loop; g_now_ms = 1000;
    DummyFd dummy; loop.sp_run_read_event_ = &dummy; loop.loop_thread_id_ = std::this_thread::get_id();     // the loop counts as running, the harness thread is its thread
    {
        eventx::TimerPool pool(&loop); TP = &pool; tp_ran[0] = tp_ran[1] = 0; tp_cancelled = false; tp_do_cancel = nondet_bool();
        bool every = nondet_bool();
        pool.doAfter(std::chrono::milliseconds(20), [] { tp_ran[0]++; if (tp_do_cancel) { bool r = TP->cancel(tp_tok1); tp_cancelled = r; VP_ASSERT(r, "a pending task can be cancelled"); } });
        auto second = [] { VP_ASSERT(!tp_cancelled, "a task whose cancellation reported success never runs afterwards (also when it was due in the same pass)"); tp_ran[1]++; };
        tp_tok1 = every ? pool.doEvery(std::chrono::milliseconds(21), second) : pool.doAfter(std::chrono::milliseconds(21), second);
        static const unsigned long ADV[] = {19, 20, 21, 60};
        for (int k = 0; k < 2; k++) {
            unsigned a = nondet_uchar(); VP_ASSUME(a < 4);
            g_now_ms += ADV[a];
            loop.pass();
            VP_ASSERT(tp_ran[0] == (g_now_ms >= 1020 ? 1 : 0), "the first task runs exactly once when its delay has passed");
            if (!tp_do_cancel) VP_ASSERT(every ? tp_ran[1] == (int)((g_now_ms - 1000) / 21) : tp_ran[1] == (g_now_ms >= 1021 ? 1 : 0), "the second task runs for every period that is due");
        }
        pool.cleanup();
        loop.pass();
    }
    loop.pass();
    VP_ASSERT(loop.timer_min_heap_.empty() && loop.timer_cabinet_.size() == 0, "no timer bookkeeping is left behind");
    loop.sp_run_read_event_ = nullptr; loop.cleanup();
    VP_REACH("timer_pool");
}
