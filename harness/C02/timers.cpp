// C02: timers never fire early, never skip a period, never fire after disable/destroy, fire in deadline order.
// Real CommonLoop timer heap + TimerEventImpl + Cabinet + ObjectPool on the sequential loop double with a virtual clock.
#include "vp.h"
#define TRACE_MODULE_ID "vp"
#include "vp_stubs.hpp"
#include "vp_seqloop.hpp"
using namespace tbox; using namespace tbox::event;
#ifndef NT
#define NT 2
#endif
#ifndef NSTEP
#define NSTEP 3
#endif
static const unsigned long D[3] = {10, 10, 15};                 // intervals (two timers share deadlines)
static TimerEvent *T[NT]; static bool alive[NT], en[NT], persist[NT];
static unsigned long t0[NT]; static unsigned long fired[NT];     // enabled at, invocations since then
static unsigned char act[NT];                                     // what timer i's callback does: 0 none, 1 disable other, 2 enable other, 3 destroy other, 4 restart self
static unsigned long last_deadline_in_pass; static bool in_pass;
static void g_enable(int i) { if (alive[i] && T[i]->enable() && !en[i]) { en[i] = true; t0[i] = g_now_ms; fired[i] = 0; } }
static void g_disable(int i) { if (alive[i]) { T[i]->disable(); en[i] = false; } }
static void g_destroy(int i) { if (alive[i]) { delete T[i]; T[i] = nullptr; alive[i] = false; en[i] = false; } }
static void on_fire(int i) {
    VP_ASSERT(alive[i], "a destroyed timer is never invoked");
    VP_ASSERT(en[i], "a disabled timer is never invoked");
    unsigned long deadline = t0[i] + (fired[i] + 1) * D[i];
    VP_ASSERT(g_now_ms >= deadline, "the k-th invocation is not before t + k*d (never early)");
    VP_ASSERT(!in_pass || deadline >= last_deadline_in_pass, "timers due in the same pass fire in deadline order");
    last_deadline_in_pass = deadline;
    fired[i]++;
    if (!persist[i]) { en[i] = false; VP_ASSERT(!T[i]->isEnabled(), "a one-shot timer is disabled when its callback runs"); }
    int o = (i + 1) % NT;
    switch (act[i]) {
    case 1: g_disable(o); break;
    case 2: g_enable(o); break;
    case 3: g_destroy(o); break;
    case 4: g_disable(i); g_enable(i); break;                     // re-enable self: a fresh full interval starts now
    default: break;
    }
}
extern "C" void h_timers() {
    vps::SeqLoop loop; g_now_ms = 1000;
    for (int i = 0; i < NT; i++) {
        T[i] = loop.newTimerEvent("t"); alive[i] = true; en[i] = false; fired[i] = 0;
        persist[i] = nondet_bool();
        unsigned a = 0; if (i == 0) { a = nondet_uchar(); VP_ASSUME(a <= 4); }    // timer 0's callback acts on the others (or restarts itself)
        act[i] = (unsigned char)a;
        VP_ASSERT(T[i]->initialize(std::chrono::milliseconds(D[i]), persist[i] ? Event::Mode::kPersist : Event::Mode::kOneshot), "initialize");
        T[i]->setCallback([i] { on_fire(i); });
    }
    for (int i = 0; i < NT; i++) g_enable(i);
    for (int k = 0; k < NSTEP; k++) {
        unsigned op = nondet_uchar(); VP_ASSUME(op <= 4);
        unsigned w = nondet_uchar(); VP_ASSUME(w < NT);
        if (op == 0) {                                            // the clock advances (also several periods at once: the loop wakes late), then one pass
            static const unsigned long ADV[] = {9, 10, 11, 25, 47};
            unsigned a = nondet_uchar(); VP_ASSUME(a < 5);
            g_now_ms += ADV[a];
            VP_ASSERT(loop.getWaitTime() <= 1000, "wait time is bounded by the nearest deadline");
            in_pass = true; last_deadline_in_pass = 0;
            loop.pass();
            in_pass = false;
            for (int i = 0; i < NT; i++) if (alive[i] && en[i])
                VP_ASSERT(t0[i] + (fired[i] + 1) * D[i] > g_now_ms, "after a pass every enabled timer has fired for every period that is due (no period skipped, one-shot fired)");
        } else if (op == 1) g_enable((int)w);
        else if (op == 2) g_disable((int)w);
        else if (op == 3) g_destroy((int)w);
        else if (alive[w]) {                                      // initialize again with the same settings: the timer is disabled, a later enable starts a fresh interval
            VP_ASSERT(T[w]->initialize(std::chrono::milliseconds(D[w]), persist[w] ? Event::Mode::kPersist : Event::Mode::kOneshot), "re-initialize");
            en[w] = false;
        }
        for (int i = 0; i < NT; i++) if (alive[i]) VP_ASSERT(T[i]->isEnabled() == en[i], "isEnabled() agrees with the enable/disable/one-shot history");
    }
    for (int i = 0; i < NT; i++) g_destroy(i);
    loop.pass();                                                   // deferred frees
    VP_ASSERT(loop.timer_min_heap_.empty() && loop.timer_cabinet_.size() == 0, "no timer bookkeeping is left behind");
    loop.cleanup();
    VP_REACH("timers");
}
