// C20 (next-instant kernels): the computed instant matches the configuration, is strictly after 'now', and NO earlier instant matches.
#include "vp.h"
#include "alarm/weekly_alarm.cpp"
#include "alarm/oneshot_alarm.cpp"
#include "alarm/workday_alarm.cpp"
#include "alarm/workday_calendar.cpp"
using namespace tbox::alarm;
#ifndef NOW_LO
#define NOW_LO 0u
#define NOW_HI (0xffffffffu - 9u * 86400u)       /* local time must stay representable in the API's uint32_t */
#endif
static bool wk_match(uint32_t t, int sod, unsigned mask) { return (t % 86400u) == (uint32_t)sod && (mask & (1u << (((t / 86400u) + 4) % 7))); }

extern "C" void h_weekly() {
    WeeklyAlarm *a = static_cast<WeeklyAlarm*>(::operator new(sizeof(WeeklyAlarm)));      // object state written directly: the kernel reads two fields
    int sod = (int)nondet_uint(); VP_ASSUME(sod >= 0 && sod < 86400);
#ifdef MASK
    unsigned mask = MASK;                            // quick tier: one solver run per representative mask
#else
    unsigned mask = nondet_uint(); VP_ASSUME(mask < 128);
#endif
    a->seconds_of_day_ = sod; a->week_mask_ = (uint8_t)mask;
    uint32_t now = nondet_uint(); VP_ASSUME(now >= NOW_LO && now < NOW_HI);
    uint32_t next = 0;
    bool ok = a->WeeklyAlarm::calculateNextLocalTimeSec(now, next);
    VP_ASSERT(ok == (mask != 0), "an instant is found iff at least one weekday is selected");
    if (ok) {
        VP_ASSERT(next > now, "next instant is strictly after now");
        VP_ASSERT(wk_match(next, sod, mask), "next instant has the configured time of day on a selected weekday");
        uint32_t w = nondet_uint(); VP_ASSUME(w > now && w < next);
        VP_ASSERT(!wk_match(w, sod, mask), "no earlier instant after now satisfies the configuration");
        VP_REACH("weekly");
    }
}
extern "C" void h_oneshot() {
    OneshotAlarm *a = static_cast<OneshotAlarm*>(::operator new(sizeof(OneshotAlarm)));
    int sod = (int)nondet_uint(); VP_ASSUME(sod >= 0 && sod < 86400);
    a->seconds_of_day_ = sod;
    uint32_t now = nondet_uint(); VP_ASSUME(now >= NOW_LO && now < NOW_HI);
    uint32_t next = 0;
    VP_ASSERT(a->OneshotAlarm::calculateNextLocalTimeSec(now, next), "one-shot always finds an instant");
    VP_ASSERT(next > now && next - now <= 86400u && next % 86400u == (uint32_t)sod, "earliest instant strictly after now with the configured time of day");
    VP_REACH("oneshot");
}
// workday alarm: the calendar is an arbitrary function of the day inside a window of WIN days after 'now' (symbolic special days + week mask)
#ifndef WIN
#define WIN 10
#endif
#ifndef DAY0
#define DAY0 19700
#endif
extern "C" void h_workday() {
    WorkdayCalendar cal;
    unsigned mask = nondet_uint(); VP_ASSUME(mask < 128);
    cal.week_mask_ = (uint8_t)mask;
    // the day index is concrete per solver run (std::map keys stay concrete), the time of day is symbolic
    uint32_t secs = nondet_uint(); VP_ASSUME(secs < 86400u);
    uint32_t now = (uint32_t)DAY0 * 86400u + secs;
    int day0 = DAY0;
    bool has_sp[WIN], sp_val[WIN], is_work[WIN];
    for (int i = 0; i < WIN; i++) {
        has_sp[i] = nondet_bool(); sp_val[i] = nondet_bool();
        if (has_sp[i]) cal.special_days_[day0 + i] = sp_val[i];
        int wd = (((day0 + i) % 7) + 4) % 7;
        is_work[i] = has_sp[i] ? sp_val[i] : ((mask >> wd) & 1);
    }
    WorkdayAlarm *a = static_cast<WorkdayAlarm*>(::operator new(sizeof(WorkdayAlarm)));
    int sod = (int)nondet_uint(); VP_ASSUME(sod >= 0 && sod < 86400);
    bool want_work = nondet_bool();
    a->seconds_of_day_ = sod; a->wp_calendar_ = &cal; a->workday_ = want_work;
    // the expected answer lies inside the window: first day i (today only if the time of day is still ahead) whose kind matches
    int exp = -1;
    for (int i = 0; i < WIN; i++) { bool today_passed = (i == 0) && (now % 86400u) >= (uint32_t)sod; if (!today_passed && is_work[i] == want_work) { exp = i; break; } }
    VP_ASSUME(exp >= 0);
    uint32_t next = 0;
    VP_ASSERT(a->WorkdayAlarm::calculateNextLocalTimeSec(now, next), "an instant inside the window is found");
    VP_ASSERT(next == (now - now % 86400u) + (uint32_t)exp * 86400u + (uint32_t)sod, "the earliest day of the wanted kind (per special days, else week mask) at the configured time of day");
    VP_ASSERT(next > now, "strictly after now");
    VP_REACH("workday");
}
