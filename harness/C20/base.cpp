// C20 (alarm base class): never fires twice for one instant, the armed delay is never shorter than the wall-clock distance,
// one-shot fires once, a disabled alarm never fires. Real alarm::Alarm on a fake loop/timer; wall clock = symbolic gettimeofday.
#include "vp.h"
#define TRACE_MODULE_ID "vp"
#include "vp_stubs.hpp"
#include "vp_fakes.hpp"
#include <sys/time.h>
static unsigned long g_sec, g_usec;                  // virtual wall clock, set by the harness
extern "C" int gettimeofday(struct timeval *tv, void *) noexcept { tv->tv_sec = (time_t)g_sec; tv->tv_usec = (suseconds_t)g_usec; return 0; }
#include "alarm/alarm.cpp"
#include "alarm/oneshot_alarm.cpp"
#include "alarm/weekly_alarm.cpp"
#include "alarm/workday_alarm.cpp"
#include "alarm/workday_calendar.cpp"
using namespace tbox;
#ifndef MAXDELTA
#define MAXDELTA 34560000u                           /* 400 days */
#endif
// ANY alarm kind: the next-instant computation is an arbitrary function obeying its contract (result strictly after the argument)
struct AnyAlarm : alarm::Alarm {
    using Alarm::Alarm;
    uint32_t delta = 1;
    bool calculateNextLocalTimeSec(uint32_t cur, uint32_t &next) override { delta = nondet_uint(); VP_ASSUME(delta >= 1 && delta <= MAXDELTA); next = cur + delta; return true; }
    void init() { state_ = State::kInited; }
};
static int g_fired;
static void set_clock(unsigned long lo) { g_sec = nondet_uint(); g_usec = nondet_uint(); VP_ASSUME(g_sec >= lo && g_sec < 4000000000ul && g_usec < 1000000ul); }
static void check_armed(vpf::FakeTimer *t, AnyAlarm &a) {
    VP_ASSERT(t->on, "enabled alarm has its timer armed");
    VP_ASSERT(a.target_utc_sec_ > g_sec, "target instant is strictly after the current wall-clock second");
    // exact wall-clock distance in ms (no wrap: the difference of two 32-bit seconds is < 2^32, times 1000 < 2^42). Written with the same
    // operand widths as the implementation so that both sides share their sub-terms and the solver needs no multiplier reasoning
    unsigned long dist_ms = (unsigned long)(uint32_t)(a.target_utc_sec_ - (uint32_t)g_sec) * 1000ul - (unsigned long)((uint32_t)g_usec / 1000u);
    VP_ASSERT(t->span_ms >= 0 && (unsigned long)t->span_ms >= dist_ms, "the delay waited is never shorter than the wall-clock distance to the instant, however far away it lies");
}
extern "C" void h_alarm_base() {
    vpf::FakeLoop loop; AnyAlarm a(&loop);
    vpf::FakeTimer *t = loop.timers[0];
    g_fired = 0; a.setCallback([] { g_fired++; });
    int tz = (int)nondet_uint(); VP_ASSUME(tz >= -720 && tz <= 840);
    a.setTimezone(tz); a.init();
    set_clock(100000);
    VP_ASSERT(a.enable(), "enable succeeds");
    check_armed(t, a);
    unsigned long prev_target = a.target_utc_sec_;
    unsigned op = nondet_uchar(); VP_ASSUME(op <= 3);
    if (op == 0) {
        // the timer expires; the monotonic clock may run slightly ahead: wall clock anywhere from one second BEFORE the target onwards
        set_clock(prev_target - 1);
        VP_ASSUME(g_sec <= prev_target + 5);
        t->fire();
        VP_ASSERT(g_fired == 1, "callback fires once per expiry");
        VP_ASSERT(a.target_utc_sec_ > prev_target, "the next target is strictly later than the one just served (never twice for one instant)");
        check_armed(t, a);
    } else if (op == 1) {
        VP_ASSERT(a.disable(), "disable succeeds");
        VP_ASSERT(!t->on, "a disabled alarm has no armed timer, so it never fires");
        set_clock(g_sec);
        VP_ASSERT(a.enable(), "re-enable succeeds");
        check_armed(t, a);
    } else if (op == 2) {
        set_clock(0);                                // wall clock adjusted (any direction), then refresh
        VP_ASSUME(g_sec >= 100000);
        a.refresh();
        check_armed(t, a);
    } else {
        a.cleanup();
        VP_ASSERT(!t->on && !a.isEnabled(), "cleanup disarms");
    }
    VP_REACH("alarm_base");
}
struct OneAlarm : alarm::OneshotAlarm { using OneshotAlarm::OneshotAlarm; };
extern "C" void h_oneshot_once() {
    vpf::FakeLoop loop; OneAlarm a(&loop);
    vpf::FakeTimer *t = loop.timers[0];
    g_fired = 0; a.setCallback([] { g_fired++; });
    a.setTimezone(0);
    int sod = (int)nondet_uint(); VP_ASSUME(sod >= 0 && sod < 86400);
    VP_ASSERT(a.initialize(sod), "initialize");
    set_clock(100000);
    VP_ASSERT(a.enable(), "enable");
    VP_ASSERT(t->on && a.target_utc_sec_ > g_sec && a.target_utc_sec_ - g_sec <= 86400u, "armed for an instant within the next day");
    set_clock(a.target_utc_sec_);
    t->fire();
    VP_ASSERT(g_fired == 1, "one-shot fires");
    VP_ASSERT(!t->on && !a.isEnabled(), "a one-shot alarm is not re-armed: it fires once");
    VP_REACH("oneshot_once");
}

// configuration entry point: a later initialize() fully replaces the earlier configuration (mask bits are not accumulated)
extern "C" void h_weekly_init() {
    vpf::FakeLoop loop; alarm::WeeklyAlarm a(&loop);
    char m1[8], m2[8]; unsigned want = 0;
    for (int i = 0; i < 7; i++) { m1[i] = '1'; bool b = nondet_bool(); m2[i] = b ? '1' : '0'; if (b) want |= 1u << i; }
    m1[7] = m2[7] = 0;
    int s1 = (int)nondet_uint(), s2 = (int)nondet_uint(); VP_ASSUME(s1 >= 0 && s1 < 86400 && s2 >= 0 && s2 < 86400);
    VP_ASSERT(a.initialize(s1, m1), "first initialize");
    VP_ASSERT(a.initialize(s2, m2), "second initialize");
    VP_ASSERT(a.week_mask_ == want && a.seconds_of_day_ == s2, "the alarm is configured exactly as the last initialize() said (weekday bits are not accumulated)");
    VP_ASSERT(!a.initialize(86400, m2) && !a.initialize(-1, m2) && !a.initialize(s2, "101"), "invalid configurations are rejected");
    VP_ASSERT(a.week_mask_ == want && a.seconds_of_day_ == s2, "a rejected initialize() leaves the configuration unchanged");
    VP_REACH("weekly_init");
}

// workday calendar <-> alarms: after any sequence of enable/disable on several alarms sharing one calendar, a calendar update re-arms
// every alarm that is still enabled (and only those) for the instant a freshly enabled alarm with the same configuration gets
#ifndef NWA
#define NWA 3
#endif
struct ProbeWA : alarm::WorkdayAlarm { using WorkdayAlarm::WorkdayAlarm; int calcs = 0;
    bool calculateNextLocalTimeSec(uint32_t cur, uint32_t &next) override { calcs++; return WorkdayAlarm::calculateNextLocalTimeSec(cur, next); } };
extern "C" void h_workday_calendar() {
    vpf::FakeLoop loop; alarm::WorkdayCalendar cal;
    cal.updateWeekMask(0x3e);                                     // Monday..Friday
    g_sec = 1700000000ul; g_usec = 0;                             // a fixed instant (Tuesday): the subject is the subscription bookkeeping
    ProbeWA *a[NWA]; bool en[NWA];
    for (int i = 0; i < NWA; i++) { a[i] = new ProbeWA(&loop); a[i]->setTimezone(0); VP_ASSERT(a[i]->initialize(3600 * (i + 1), &cal, (i & 1) == 0), "initialize"); en[i] = false; }
    for (int step = 0; step < 4; step++) {
        unsigned w = nondet_uchar(); VP_ASSUME(w < NWA); w = (unsigned)vp_concretize(w);
        if (en[w]) { VP_ASSERT(a[w]->disable(), "disable"); en[w] = false; } else { VP_ASSERT(a[w]->enable(), "enable"); en[w] = true; }
    }
    int before[NWA]; for (int i = 0; i < NWA; i++) before[i] = a[i]->calcs;
    bool by_mask = nondet_bool();
    if (by_mask) cal.updateWeekMask(0x41);                        // now only Saturday and Sunday are workdays
    else { std::map<int, bool> sp; for (int d = 19675; d < 19690; d++) sp[d] = (d & 1); cal.updateSpecialDays(sp); }
    for (int i = 0; i < NWA; i++) {
        VP_ASSERT((a[i]->calcs > before[i]) == en[i], "a calendar update re-evaluates exactly the alarms that are enabled at that moment");
        if (en[i]) {
            ProbeWA fresh(&loop); fresh.setTimezone(0); fresh.initialize(3600 * (i + 1), &cal, (i & 1) == 0);
            VP_ASSERT(fresh.enable(), "fresh enable");
            VP_ASSERT(a[i]->target_utc_sec_ == fresh.target_utc_sec_, "after the update an enabled alarm is armed for the instant a freshly enabled alarm with the same configuration gets");
            fresh.disable();
        }
    }
    for (int i = 0; i < NWA; i++) delete a[i];
    VP_REACH("workday_calendar");
}
