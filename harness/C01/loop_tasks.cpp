// C01: deferred tasks run exactly once, on the loop thread, in submission order; cancel works before and inside the running batch;
// pending tasks are drained at shutdown / destruction; cross-thread submission never loses a wake-up and is race free.
// The REAL EpollLoop / SelectLoop + CommonLoop run on the kernel seam; the threaded harness uses the blocking seam
// (a loop sleeping in epoll_wait() with a pending task that nobody will wake = deadlock reported by the engine).
#include "vp.h"
#define TRACE_MODULE_ID "vp"
#include "vp_stubs.hpp"
#include "vp_kernel.hpp"
#include <chrono>
#include <thread>
#include <pthread.h>
static unsigned long g_now_ms = 1000;
namespace std { namespace chrono { inline namespace _V2 {
steady_clock::time_point steady_clock::now() noexcept { return time_point(duration(std::chrono::milliseconds(g_now_ms))); }
} } }
#include "event/common_loop.cpp"
#include "event/common_loop_timer.cpp"
#include "event/common_loop_run.cpp"
#include "event/common_loop_signal.cpp"
#include "event/timer_event_impl.cpp"
#include "event/signal_event_impl.cpp"
#include "event/misc.cpp"
#include "event/stat.cpp"
#include "event/engines/epoll/loop.cpp"
#include "event/engines/epoll/fd_event.cpp"
#include "event/engines/select/loop.cpp"
#include "event/engines/select/fd_event.cpp"
using namespace tbox; using namespace tbox::event;
#ifndef BACKEND
#define BACKEND EpollLoop
#endif
#define NTASK 6
static int ran[NTASK]; static int seq, ran_at[NTASK]; static bool off_thread[NTASK]; static pthread_t loop_tid;
static void mark(int i) { ran[i]++; ran_at[i] = seq++; if (!pthread_equal(pthread_self(), loop_tid)) off_thread[i] = true; }
static void reset() { for (int i = 0; i < NTASK; i++) { ran[i] = 0; ran_at[i] = -1; off_thread[i] = false; } seq = 0; vk::reset(); }

// ---- sequential part: runNext / runInLoop / run from the loop thread, cancel before and inside the batch, drain at shutdown and destruction
extern "C" void h_seq() {
    reset(); loop_tid = pthread_self();
    Loop::RunId id[NTASK]; bool cancelled[NTASK]; for (int i = 0; i < NTASK; i++) { id[i] = 0; cancelled[i] = false; }
    unsigned victim = nondet_uchar(); VP_ASSUME(victim <= 3);                        // which of the queued tasks gets cancelled (0 = the task that is running cancels itself)
    unsigned when = nondet_uchar(); VP_ASSUME(when <= 2);                            // 0: before the loop runs, 1: from inside task 0 (same batch), 2: never
    VP_ASSUME(victim >= 1 || when == 1);
    bool use_in_loop = nondet_bool();                                                // thread-safe entry point or runNext
    {
        BACKEND loop;
        static BACKEND *L; L = &loop; static Loop::RunId *ID; ID = id; static bool *C; C = cancelled; static unsigned V, W; V = victim; W = when;
        auto sub = [&](int i, Loop::Func f) { id[i] = use_in_loop ? loop.runInLoop(std::move(f), "t") : loop.runNext(std::move(f), "t"); VP_ASSERT(id[i] != 0, "submission returns a task id"); };
        sub(0, [] { mark(0); if (W == 1) { bool r = L->cancel(ID[V]); C[V] = r && V != 0;
            if (V != 0) VP_ASSERT(r, "a task still pending in the batch being executed can be cancelled from the loop thread");
            else VP_ASSERT(!r, "a task that is being invoked cannot be cancelled any more (cancel of its own id from inside the task answers false)"); } });
        sub(1, [] { mark(1); }); sub(2, [] { mark(2); }); sub(3, [] { mark(3); });
        if (when == 0) { bool r = loop.cancel(id[victim]); cancelled[victim] = r; VP_ASSERT(r, "a pending task can be cancelled before it runs"); VP_ASSERT(!loop.cancel(id[victim]), "a task cannot be cancelled twice"); }
        loop.runLoop(Loop::Mode::kOnce);
        loop.runLoop(Loop::Mode::kOnce);                                             // (runInLoop tasks are served by the eventfd event of the pass)
        VP_ASSERT(!loop.cancel(id[0]), "a task that has already run cannot be cancelled");
        id[4] = loop.runNext([] { mark(4); }, "late");                               // submitted after the loop stopped: must run when the loop is destroyed (or runs again)
        id[5] = loop.runInLoop([] { mark(5); }, "late");
    }
    for (int i = 0; i < NTASK; i++) {
        VP_ASSERT(ran[i] == (cancelled[i] ? 0 : 1), "every deferred task is invoked exactly once unless it was successfully cancelled, in which case never");
        VP_ASSERT(!off_thread[i], "tasks run on the thread that runs (or destroys) the loop");
    }
    for (int i = 0; i + 1 < 4; i++) for (int j = i + 1; j < 4; j++) if (ran[i] && ran[j]) VP_ASSERT(ran_at[i] < ran_at[j], "tasks submitted through one entry point run in submission order");
    VP_REACH("seq");
}
// ---- threaded part: another thread submits through the thread-safe entry point while the loop runs / starts / sleeps
// the entry point used by the foreign thread: runInLoop (rvalue / lvalue overload) at any time, or run() (rvalue / lvalue overload) while the loop is running
static BACKEND *XL; static unsigned XAPI; static std::thread *XT;
static void xsubmit(Loop::Func f, const char *what) {
    switch (XAPI) {
        case 0: XL->runInLoop(std::move(f), what); break;
        case 1: XL->runInLoop(f, what); break;
        case 2: XL->run(std::move(f), what); break;
        default: XL->run(f, what); break;
    }
}
static void xbody() {
    xsubmit([] { mark(1); }, "a");
    xsubmit([] { mark(2); }, "b");
    xsubmit([] { mark(3); XL->exitLoop(std::chrono::milliseconds(0)); }, "exit");                                // the last submission stops the loop
}
extern "C" void h_cross_thread() {
    reset(); loop_tid = pthread_self();
    {
        BACKEND loop; static BACKEND *L; L = &loop; XL = &loop;
#ifdef XAPI_FIX
        XAPI = XAPI_FIX;                                                               // one entry point per solver run (deeper preemption bounds)
#else
        XAPI = nondet_uchar(); VP_ASSUME(XAPI <= 3);
#endif
        bool before = nondet_bool();
        if (before) loop.runInLoop([] { mark(0); }, "pre"); else { ran[0] = 1; ran_at[0] = seq++; }          // a task submitted before the loop runs
        if (XAPI >= 2) loop.runNext([] { XT = new std::thread(xbody); }, "spawn");                               // run() picks the unlocked path while the loop is not running: the submitter starts once the loop runs
        else XT = new std::thread(xbody);
        loop.runLoop(Loop::Mode::kForever);                                          // returns only if the wake-ups are not lost
        XT->join(); delete XT;
        for (int i = 4; i < NTASK; i++) { ran[i] = 1; }
    }
    for (int i = 0; i < 4; i++) { VP_ASSERT(ran[i] == 1, "every task submitted from another thread is invoked exactly once"); VP_ASSERT(!off_thread[i], "on the loop thread"); }
    VP_ASSERT(ran_at[1] < ran_at[2] && ran_at[2] < ran_at[3], "one submitter's tasks keep their order");
    VP_REACH("cross_thread");
}

// ---- re-run: a loop that has stopped is run again; submissions from another thread during the second run must still wake it.
// First run (kOnce): a task submits another one through the thread-safe entry point during the pass in which the loop ends, so that
// task is served by the shutdown drain and the wake-up request it committed is still outstanding when the loop stops.
extern "C" void h_rerun() {
    reset(); loop_tid = pthread_self();
    {
        BACKEND loop; XL = &loop;
        bool inner = nondet_bool();                                                   // with / without the outstanding request
        if (inner) loop.runNext([] { mark(0); XL->runInLoop([] { mark(1); }, "inner"); }, "outer");
        else { loop.runNext([] { mark(0); }, "outer"); loop.runInLoop([] { mark(1); }, "plain"); }
        loop.runLoop(Loop::Mode::kOnce);
        VP_ASSERT(ran[0] == 1 && ran[1] == 1, "tasks pending when the loop stops are run during shutdown");
        XAPI = 0;
        XT = new std::thread([] {
            xsubmit([] { mark(2); }, "a");
            xsubmit([] { mark(3); XL->exitLoop(std::chrono::milliseconds(0)); }, "exit");
        });
        loop.runLoop(Loop::Mode::kForever);                                           // second run: returns only if the foreign submissions still wake the loop
        XT->join(); delete XT;
        for (int i = 4; i < NTASK; i++) ran[i] = 1;
    }
    for (int i = 0; i < 4; i++) { VP_ASSERT(ran[i] == 1, "every task is invoked exactly once, also across a re-run of the loop"); VP_ASSERT(!off_thread[i], "on the loop thread"); }
    VP_ASSERT(ran_at[2] < ran_at[3], "one submitter's tasks keep their order");
    VP_REACH("rerun");
}
