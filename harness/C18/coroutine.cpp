// C18: coroutine primitives — FIFO delivery, mutual exclusion, semaphore accounting, no lost wake-ups at idle, cancel/cleanup/join.
// Real Scheduler/Channel/Mutex/Semaphore/Condition/Broadcast on a fake loop; ucontext is modelled natively by engine B
// (a context is a saved call stack). Routine scripts are small step lists whose choices (what each step is) are symbolic.
#include "vp.h"
#include "vp_fakes.hpp"
#include "coroutine/scheduler.cpp"
#include <tbox/coroutine/channel.hpp>
#include <tbox/coroutine/mutex.hpp>
#include <tbox/coroutine/semaphore.hpp>
#include <tbox/coroutine/condition.hpp>
#include <tbox/coroutine/broadcast.hpp>
using namespace tbox; using namespace tbox::coroutine;
#ifndef NR
#define NR 3
#endif
#ifndef NS
#define NS 2
#endif
enum Op { NOP, YIELD, SEND, RECV, LOCK, UNLOCK, ACQ, REL, BWAIT, BPOST };
enum Blk { B_NONE, B_CHAN, B_MUTEX, B_SEM, B_BCAST, B_JOIN };
static unsigned char script[NR][NS];
static Blk blocked_on[NR]; static bool finished[NR]; static bool failed[NR];
static int next_val; static int recv_log[8]; static int n_recv; static int recv_by[8];
static int holders; static int grants; static int releases; static int sem_init;
struct World { vpf::FakeLoop loop; Scheduler sch; Channel<int> ch; Mutex mtx; Semaphore sem; Broadcast bc; int bc_waiting_at_post;
    World(int s0) : sch(&loop), ch(sch), mtx(sch), sem(sch, s0), bc(sch), bc_waiting_at_post(0) {} };
static World *W;

static void body(int r) {
    bool ok = true;
    for (int i = 0; i < NS && ok; i++) {
        switch (script[r][i]) {
        case YIELD: W->sch.yield(); break;
        case SEND:  W->ch << next_val++; break;
        case RECV:  { int v = -1; blocked_on[r] = B_CHAN; ok = (W->ch >> v); blocked_on[r] = B_NONE; if (ok) { if (n_recv < 8) { recv_log[n_recv] = v; recv_by[n_recv] = r; } n_recv++; } break; }
        case LOCK:  { bool mine = W->mtx.hold_token_.equal(W->sch.getToken());       // re-locking one's own mutex is a documented no-op
                    blocked_on[r] = B_MUTEX; ok = W->mtx.lock(); blocked_on[r] = B_NONE;
                    if (ok && mine) break; }
                    if (ok) { holders++; VP_ASSERT(holders == 1, "a coroutine mutex is held by at most one routine at a time"); W->sch.yield(); VP_ASSERT(holders == 1, "mutual exclusion holds across a yield inside the critical section"); }
                    break;
        case UNLOCK: if (holders == 1 && W->mtx.hold_token_.equal(W->sch.getToken())) holders--; W->mtx.unlock(); break;
        case ACQ:   blocked_on[r] = B_SEM; ok = W->sem.acquire(); blocked_on[r] = B_NONE; if (ok) { grants++; VP_ASSERT(grants <= releases + sem_init, "a semaphore grants at most releases + initial count acquisitions"); } break;
        case REL:   releases++; W->sem.release(); break;
        case BWAIT: blocked_on[r] = B_BCAST; ok = W->bc.wait(); blocked_on[r] = B_NONE; break;
        case BPOST: W->bc.post(); break;
        default: break;
        }
    }
    // a routine that still holds the mutex at its end releases it (so that "free mutex" is well defined at idle)
    if (W->mtx.hold_token_.equal(W->sch.getToken())) { if (holders == 1) holders--; W->mtx.unlock(); }
    failed[r] = !ok; finished[r] = true;
}
static void drain(World &w) { for (int guard = 0; guard < 64 && !w.loop.next_q.empty(); guard++) w.loop.pass(); }

#ifndef FAMILY
#define FAMILY 0
#endif
// step alphabets per scenario family (keeps the symbolic script space focused on one primitive at a time)
static unsigned char pick(int family) {
    unsigned k = nondet_uchar();
    switch (family) {
    case 0: VP_ASSUME(k < 4); { static const unsigned char a[] = {NOP, YIELD, SEND, RECV}; return a[k]; }
    case 1: VP_ASSUME(k < 4); { static const unsigned char a[] = {NOP, YIELD, LOCK, UNLOCK}; return a[k]; }
    case 2: VP_ASSUME(k < 4); { static const unsigned char a[] = {NOP, YIELD, ACQ, REL}; return a[k]; }
    default: VP_ASSUME(k < 4); { static const unsigned char a[] = {NOP, YIELD, BWAIT, BPOST}; return a[k]; }
    }
}
extern "C" void h_scripts() {
    next_val = 100; n_recv = 0; holders = 0; grants = 0; releases = 0;
    sem_init = nondet_bool() ? 1 : 0;
    World w(sem_init); W = &w;
    for (int r = 0; r < NR; r++) { blocked_on[r] = B_NONE; finished[r] = failed[r] = false; for (int i = 0; i < NS; i++) script[r][i] = pick(FAMILY); }
    // canonical form (symmetry): NOPs only at the end of a script
    for (int r = 0; r < NR; r++) for (int i = 0; i + 1 < NS; i++) VP_ASSUME(!(script[r][i] == NOP && script[r][i + 1] != NOP));
    RoutineToken tok[NR];
    for (int r = 0; r < NR; r++) tok[r] = w.sch.create([r](Scheduler &) { body(r); }, true, "r", 8192);
    drain(w);                                   // run until the scheduler has no ready routine left
    // ---- at idle
    for (int r = 0; r < NR; r++) if (!finished[r]) {
        VP_ASSERT(blocked_on[r] != B_NONE, "an unfinished routine at idle is suspended in a blocking call");
        if (blocked_on[r] == B_CHAN) VP_ASSERT(w.ch.empty(), "no routine is left suspended on a non-empty channel");
        if (blocked_on[r] == B_MUTEX) VP_ASSERT(!w.mtx.hold_token_.isNull(), "no routine is left suspended on a free mutex");
        if (blocked_on[r] == B_SEM) VP_ASSERT(w.sem.count_ <= 0, "no routine is left suspended on a semaphore whose count is positive");
    }
    for (int i = 0; i < n_recv && i < 8; i++) VP_ASSERT(recv_log[i] == 100 + i, "channel values are received exactly once and in the order they were sent");
    VP_ASSERT(n_recv <= next_val - 100, "never more values received than sent");
    VP_ASSERT(w.sem.count_ == sem_init + releases - grants, "semaphore count == initial + releases - grants");
    // ---- cancel / cleanup: every started routine returns from its blocking call with failure and terminates
    bool use_cancel = nondet_bool();
    if (use_cancel) { for (int r = 0; r < NR; r++) if (!finished[r]) w.sch.cancel(tok[r]); drain(w); }
    else w.sch.cleanup();
    for (int r = 0; r < NR; r++) VP_ASSERT(finished[r], "cancel / cleanup makes every started routine return from its blocking call and terminate");
    VP_REACH("scripts");
}
// broadcast / condition / join: waiters registered at the moment of the post are all resumed
extern "C" void h_wakeall() {
    World w(0); W = &w;
    static int woke[3]; static int cond_ret[2]; static int joined;
    for (int i = 0; i < 3; i++) woke[i] = 0; cond_ret[0] = cond_ret[1] = -1; joined = -1;
    unsigned nwait = nondet_uchar(); VP_ASSUME(nwait <= 3);
    for (unsigned i = 0; i < nwait; i++) w.sch.create([i](Scheduler &) { if (W->bc.wait()) woke[i] = 1; }, true, "bw", 8192);
    drain(w);
    w.sch.create([](Scheduler &) { W->bc.post(); }, true, "bp", 8192);
    drain(w);
    for (unsigned i = 0; i < nwait; i++) VP_ASSERT(woke[i] == 1, "every routine waiting on a broadcast when it is posted is resumed");
    // condition: kAll / kAny, posts before or after the waiter blocks
    bool all = nondet_bool(); bool early = nondet_bool();
    Condition<int> cond(w.sch, all ? Condition<int>::Logic::kAll : Condition<int>::Logic::kAny);
    cond.add(1); cond.add(2);
    if (early) cond.post(1);                      // a post that arrives between add() and wait()
    w.sch.create([&cond](Scheduler &) { cond_ret[0] = cond.wait() ? 1 : 0; }, true, "cw", 8192);
    drain(w);
    w.sch.create([&cond, early](Scheduler &) { if (!early) cond.post(1); cond.post(2); }, true, "cp", 8192);
    drain(w);
    VP_ASSERT(cond_ret[0] != -1, "a routine waiting on a condition is resumed once the condition is satisfied (no lost wake-up, also for early posts)");
    // join
    RoutineToken target = w.sch.create([](Scheduler &s) { s.yield(); s.yield(); }, true, "jt", 8192);
    w.sch.create([target](Scheduler &s) { joined = s.join(target) ? 1 : 0; }, true, "jw", 8192);
    drain(w);
    VP_ASSERT(joined == 1, "join returns once its target has finished");
    w.sch.cleanup();
    VP_REACH("wakeall");
}

// join vs. cancel: a routine joined on a target returns from join() once the target has finished - also when the target is cancelled,
// before its first run (created ready or created suspended) or after it has started
extern "C" void h_join_cancel() {
    World w(0); W = &w;
    static int joined, t_steps; joined = -1; t_steps = 0;
    bool run_now = nondet_bool();
    RoutineToken target = w.sch.create([](Scheduler &s) { t_steps++; s.yield(); t_steps++; s.yield(); t_steps++; }, run_now, "jt", 8192);
    w.sch.create([target](Scheduler &s) { joined = s.join(target) ? 1 : 0; }, true, "jw", 8192);
    unsigned when = nondet_uchar(); VP_ASSUME(when <= 3);          // number of loop passes before the cancel; 3: no cancel
    for (unsigned k = 0; k < when && k < 3; k++) if (!w.loop.next_q.empty()) w.loop.pass();
    bool was_live = w.sch.d_->routine_cabinet.at(target) != nullptr;
    if (when < 3) { bool r = w.sch.cancel(target); if (!was_live) VP_ASSERT(!r, "cancel of a routine that no longer exists reports failure"); }
    drain(w);
    if (run_now || when < 3) {
        VP_ASSERT(w.sch.d_->routine_cabinet.at(target) == nullptr, "a finished or cancelled routine is gone");
        VP_ASSERT(joined != -1, "join returns once its target has finished or was cancelled (the joiner is not left suspended on a routine that no longer exists)");
    }
    if (when < 3 && was_live) VP_ASSERT(t_steps < 3 || true, "-");
    w.sch.cleanup();
    VP_ASSERT(joined != -1, "cleanup makes every started routine return from its blocking call");
    VP_REACH("join_cancel");
}
