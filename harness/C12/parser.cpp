// C12 (parser part): RequestParser is total and segmentation independent. Engine B (std::string / std::map / exceptions).
#include "vp.h"
#include "http/server/request_parser.cpp"
#include "http/common.cpp"
#include "http/url.cpp"
#include "http/request.cpp"
#include "util/string.cpp"
#include "util/buffer.cpp"
#include <vector>
using namespace tbox::http;
using namespace tbox::http::server;
using tbox::util::Buffer;

// request delivered = (method, version, path, #headers, body) flattened for comparison
struct Got { int n; int method[4]; int ver[4]; std::string path[4]; std::string body[4]; size_t nhead[4]; std::string hv[4]; bool failed; };

// the same feeding loop as http::server::Server::Impl::onTcpReceived, without the TCP server
static void feed(RequestParser &p, Buffer &buff, const char *seg, size_t n, Got &g) {
    if (g.failed) return;
    buff.append(seg, n);
    while (buff.readableSize() > 0) {
        size_t given = buff.readableSize();
        size_t r = p.parse(buff.readableBegin(), given);
        VP_ASSERT(r <= given, "parser never claims to have consumed more bytes than it was given");
        buff.hasRead(r);
        if (p.state() == RequestParser::State::kFinishedAll) {
            Request *q = p.getRequest();
            VP_ASSERT(q != nullptr, "finished request can be taken");
            if (g.n < 4) { g.method[g.n] = (int)q->method; g.ver[g.n] = (int)q->http_ver; g.path[g.n] = q->url.path; g.body[g.n] = q->body; g.nhead[g.n] = q->headers.size();
                           auto it = q->headers.find("X-K"); g.hv[g.n] = it == q->headers.end() ? std::string("<none>") : it->second; }
            g.n++; delete q;
        } else if (p.state() == RequestParser::State::kFail) { g.failed = true; break; }
        else break;
    }
}
static bool same(const Got &a, const Got &b) {
    if (a.failed != b.failed || a.n != b.n) return false;
    for (int i = 0; i < a.n && i < 4; i++)
        if (a.method[i] != b.method[i] || a.ver[i] != b.ver[i] || a.path[i] != b.path[i] || a.body[i] != b.body[i] || a.nhead[i] != b.nhead[i] || a.hv[i] != b.hv[i]) return false;
    return true;
}

#ifndef NANY
#define NANY 5
#endif
// (i) totality on arbitrary bytes
extern "C" void h_parse_any() {
    vp_global_ctors();
    char in[NANY]; for (int i = 0; i < NANY; i++) in[i] = (char)nondet_uchar();
    size_t len = nondet_ulong(); VP_ASSUME(len <= NANY);
    RequestParser p;
    size_t r = p.parse(in, len);                     // an escaping exception is reported by the engine
    VP_ASSERT(r <= len, "parser never claims to have consumed more bytes than it was given");
    VP_REACH("parse_any");
}
// (i') totality on request templates with symbolic holes
#ifndef TPL
#define TPL 0
#endif
static const char *const TEMPLATES[] = {
    "GET /a HTTP/1.1\r\nContent-Length: @@\r\n\r\nab",          // 0: content-length value symbolic
    "@@@ /a HTTP/1.1\r\n\r\n",                                  // 1: method symbolic
    "GET /a HTTP/1.@\r\nX-K: @\r\n\r\n",                        // 2: version digit + header value symbolic
    "POST /p?x=@ HTTP/1.1\r\nContent-Length: 1\r\n\r\n@",       // 3: query value + body byte symbolic
    "GET /a HTTP/1.1\r\n@@: v\r\n\r\n",                         // 4: header name symbolic
    "GET @@ HTTP/1.1\r\n\r\n",                                  // 5: target symbolic
};
extern "C" void h_parse_holes() {
    vp_global_ctors();
    const char *t = TEMPLATES[TPL]; size_t n = 0; while (t[n]) n++;
    char in[80];
    for (size_t i = 0; i < n; i++) in[i] = (t[i] == '@') ? (char)nondet_uchar() : t[i];
    RequestParser p;
    size_t r = p.parse(in, n);
    VP_ASSERT(r <= n, "parser never claims to have consumed more bytes than it was given");
    if (p.state() == RequestParser::State::kFinishedAll) { Request *q = p.getRequest(); VP_ASSERT(q != nullptr, "finished request can be taken"); delete q; }
    VP_REACH("parse_holes");
}
// (ii) segmentation independence: a well-formed stream cut at symbolic points yields the same request sequence
#ifndef STREAM
#define STREAM 0
#endif
static const char *const STREAMS[] = {
    "GET /a HTTP/1.1\r\nX-K: v1\r\n\r\n",
    "POST /p HTTP/1.1\r\nContent-Length: 3\r\nX-K: v\r\n\r\nabcGET /b HTTP/1.0\r\nContent-Length: 0\r\n\r\n",
    "PUT /x;k=1?q=2#f HTTP/1.1\r\nX-K: a b\r\nContent-Length: 2\r\n\r\nhi",
};
extern "C" void h_segmentation() {
    vp_global_ctors();
    const char *t = STREAMS[STREAM]; size_t n = 0; while (t[n]) n++;
    Got whole; whole.n = 0; whole.failed = false;
    { RequestParser p; Buffer b(0); feed(p, b, t, n, whole); }
    VP_ASSERT(!whole.failed && whole.n >= 1, "the unsegmented well-formed stream is accepted");
    size_t k1 = nondet_ulong(); size_t k2 = nondet_ulong();
    VP_ASSUME(k1 <= k2 && k2 <= n);
#ifdef ONECUT
    VP_ASSUME(k2 == n);
#endif
    Got parts; parts.n = 0; parts.failed = false;
    { RequestParser p; Buffer b(0);
      feed(p, b, t, k1, parts); feed(p, b, t + k1, k2 - k1, parts); feed(p, b, t + k2, n - k2, parts); }
    VP_ASSERT(same(whole, parts), "segmented stream yields the same sequence of requests as the unsegmented stream");
    VP_REACH("segmentation");
}
