// C12 (server part): responses are written exactly once, in request order, nothing after the closing response, one disconnect.
// The real http::server::Server::Impl + Context + Respond + RequestParser run on a link seam for network::TcpServer.
#include "vp.h"
#define TRACE_MODULE_ID "vp"
#include "vp_stubs.hpp"
#include <tbox/network/tcp_server.h>
#include <tbox/network/sockaddr.h>
#include <sys/socket.h>
// ---- link seam: network::TcpServer (one connection), network::SockAddr -------------------------------------------
static int  g_sent_idx[16]; static int g_nsent;       // index digit of every response written to the connection, in order
static int  g_disconnects, g_shutdowns; static bool g_valid; static bool g_send_pending; static void *g_ctx;
static int  g_sent_after_disconnect;
static bool g_rd_shut;                                 // the server shut the receive direction down: the transport then reads EOF and reports a disconnect (see below)
static size_t g_rx_threshold;                         // the receive threshold the server registers: the transport (BufferedFd) calls back only when at least that much is unconsumed
namespace tbox { namespace network {
struct TcpServer::Data {};
TcpServer::TcpServer(event::Loop *) {}
TcpServer::~TcpServer() {}
bool TcpServer::initialize(const SockAddr &, int) { return true; }
void TcpServer::setConnectedCallback(const ConnectedCallback &) {}
void TcpServer::setDisconnectedCallback(const DisconnectedCallback &) {}
void TcpServer::setReceiveCallback(const ReceiveCallback &, size_t threshold) { g_rx_threshold = threshold; }
void TcpServer::setSendCompleteCallback(const SendCompleteCallback &) {}
bool TcpServer::start() { return true; }
void TcpServer::stop() {}
void TcpServer::cleanup() {}
bool TcpServer::send(const ConnToken &, const void *p, size_t n) {
    if (!g_valid) { g_sent_after_disconnect++; return false; }
    const char *c = static_cast<const char *>(p);
    if (g_nsent < 16) g_sent_idx[g_nsent] = (n >= 1) ? c[n - 1] - '0' : -1;      // body is "R<i>": last byte identifies the response
    g_nsent++; g_send_pending = true; return true;
}
bool TcpServer::disconnect(const ConnToken &) { g_disconnects++; g_valid = false; g_send_pending = false; return true; }
bool TcpServer::shutdown(const ConnToken &, int how) { g_shutdowns++; if (how == SHUT_RD || how == SHUT_RDWR) g_rd_shut = true; return true; }
bool TcpServer::isClientValid(const ConnToken &) const { return g_valid; }
SockAddr TcpServer::getClientAddress(const ConnToken &) const { return SockAddr(); }
void TcpServer::setContext(const ConnToken &, void *c, ContextDeleter &&) { g_ctx = c; }
void *TcpServer::getContext(const ConnToken &) const { return g_valid ? g_ctx : nullptr; }
SockAddr::SockAddr() {}
SockAddr::SockAddr(const SockAddr &) {}
std::string SockAddr::toString() const { return "peer"; }
} }
#include "http/server/server_imp.cpp"
#include "http/server/server.cpp"
#include "http/server/context.cpp"
#include "http/server/request_parser.cpp"
#include "http/common.cpp"
#include "http/url.cpp"
#include "http/request.cpp"
#include "http/respond.cpp"
#include "util/string.cpp"
#include "util/buffer.cpp"
using namespace tbox; using namespace tbox::http; using namespace tbox::http::server;
#ifndef NREQ
#define NREQ 3
#endif
static ContextSptr g_slot[NREQ + 1]; static int g_handled; static unsigned g_inline_mask;
static const char *const REQ_KEEP  = "GET /k HTTP/1.1\r\nContent-Length: 0\r\n\r\n";      // bodies are declared (the property quantifies over requests with declared lengths)
static const char *const REQ_CLOSE = "GET /c HTTP/1.1\r\nConnection: close\r\nContent-Length: 0\r\n\r\n";
static const char *const REQ_10    = "GET /o HTTP/1.0\r\nContent-Length: 0\r\n\r\n";

extern "C" void h_pipeline() {
    vp_global_ctors();
    g_nsent = 0; g_disconnects = g_shutdowns = 0; g_valid = true; g_send_pending = false; g_ctx = nullptr; g_handled = 0; g_sent_after_disconnect = 0;
    Server srv(nullptr);
    Server::Impl *impl = srv.impl_;
#ifdef TAILSPLIT                                             // segmentation variant: all handlers complete inline, no close, byte-level split of the last request
    g_inline_mask = 0xff;
#elif defined(LATE_ONLY)                                     // cheaper variant for longer pipelines: all handlers complete late, one segment, no close
    g_inline_mask = 0;
#else
    g_inline_mask = nondet_uchar();                         // which handlers complete inside the request callback
#endif
    srv.use([](ContextSptr ctx, const NextFunc &) {
        int i = g_handled++;
        ctx->res().status_code = StatusCode::k200_OK;
        ctx->res().body = std::string("R") + char('0' + i);
        if (i <= NREQ && !((g_inline_mask >> i) & 1)) g_slot[i] = ctx;      // completes later: keep the context alive
    });
    g_rx_threshold = 0; g_rd_shut = false;
    VP_ASSERT(srv.initialize(network::SockAddr(), 1), "server initialize (registers its callbacks at the transport)");
    cabinet::Token ct(1, 0);
    impl->onTcpConnected(ct);
    // the pipeline: NREQ requests, at most one of them asks to close (symbolic position; NREQ = none), close kind symbolic
#if defined(LATE_ONLY) || defined(TAILSPLIT)
    unsigned close_at = NREQ; bool http10 = false;
#else
    unsigned close_at = nondet_uchar(); VP_ASSUME(close_at <= NREQ);
    bool http10 = nondet_bool();
#endif
    util::Buffer buff(0);
#if defined(LATE_ONLY) || defined(TAILSPLIT)
    unsigned cut = 0;
#else
    unsigned cut = nondet_uchar(); VP_ASSUME(cut <= NREQ);   // requests [0,cut) arrive in the first segment, the rest in a second one
#endif
    // the transport's contract (network::BufferedFd): after new bytes arrived the callback runs iff the unconsumed bytes reach the registered threshold
    #define DELIVER() do { if (g_valid && buff.readableSize() > 0 && buff.readableSize() >= g_rx_threshold) impl->onTcpReceived(ct, buff); } while (0)
#ifdef TAILSPLIT                                             // segmentation at server level: the last `tail` bytes of the last request arrive in a segment of their own
    unsigned tail = nondet_uchar(); VP_ASSUME(tail <= 24);
#else
    unsigned tail = 0;
#endif
    for (unsigned i = 0; i < NREQ; i++) {
        const char *r = (i == close_at) ? (http10 ? REQ_10 : REQ_CLOSE) : REQ_KEEP;
        size_t n = 0; while (r[n]) n++;
        if (i == cut && i > 0) DELIVER();
        if (i == NREQ - 1 && tail > 0) { buff.append(r, n - tail); DELIVER(); buff.append(r + (n - tail), tail); }
        else buff.append(r, n);
    }
    DELIVER();
    // what the real transport does after shutdown(SHUT_RD): the socket reads end-of-file, network::TcpConnection treats that like a peer close,
    // TcpServer drops the connection and reports it - before any late handler has completed
    if (g_rd_shut && g_valid) { g_valid = false; impl->onTcpDisconnected(ct); }
    int expected = (close_at < NREQ) ? (int)close_at + 1 : NREQ;     // requests after the closing one get no response
    // late completions in a symbolic order, send-complete notifications at symbolic moments
    for (int step = 0; step < NREQ; step++) {
        unsigned pick = nondet_uchar(); VP_ASSUME(pick < NREQ);
        if (g_slot[pick]) g_slot[pick].reset();              // last reference gone: the response is committed
        else { for (int k = 0; k < NREQ; k++) if (g_slot[k]) { g_slot[k].reset(); break; } }
        if (g_send_pending && nondet_bool()) { g_send_pending = false; if (g_valid) impl->onTcpSendCompleted(ct); }
    }
    if (g_send_pending) { g_send_pending = false; if (g_valid) impl->onTcpSendCompleted(ct); }
    // ---- the property
    VP_ASSERT(g_handled >= expected, "every request up to the closing one reaches a handler");
    VP_ASSERT(g_nsent == expected, "exactly one response per request (up to and including the closing request), nothing after it");
    for (int i = 0; i < g_nsent && i < 16; i++) VP_ASSERT(g_sent_idx[i] == i, "responses appear on the connection in request order");
    VP_ASSERT(g_sent_after_disconnect == 0, "nothing is written after the connection was closed");
    if (close_at < NREQ) VP_ASSERT(g_disconnects == 1, "the connection is closed exactly once after the closing response was sent");
    else VP_ASSERT(g_disconnects == 0, "a keep-alive pipeline is not disconnected");
    VP_REACH("pipeline");
    for (int k = 0; k <= NREQ; k++) g_slot[k].reset();
}
