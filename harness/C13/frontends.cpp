// C13 (front ends): bytes a client sends to the telnet front end (negotiation, sub-negotiation, commands, data, in any segmentation) or to
// the raw-TCP front end never cause an exception, an invalid memory access, or a callback for a session that is gone - also around the end
// of a session (the exit command ends it in two deferred steps while the connection is still registered).
// Real terminal/impl/service/telnetd.cpp and tcp_rpc.cpp on a link seam for network::TcpServer, a fake loop and a recording TerminalInteract.
#include "vp.h"
#define TRACE_MODULE_ID "vp"
#include "vp_stubs.hpp"
#include "vp_fakes.hpp"
#include <tbox/network/tcp_server.h>
#include <tbox/network/sockaddr.h>
static bool g_conn_valid; static int g_disconnects, g_sends, g_send_invalid;
namespace tbox { namespace network {
struct TcpServer::Data {};
TcpServer::TcpServer(event::Loop *) {}
TcpServer::~TcpServer() {}
bool TcpServer::initialize(const SockAddr &, int) { return true; }
void TcpServer::setConnectedCallback(const ConnectedCallback &) {}
void TcpServer::setDisconnectedCallback(const DisconnectedCallback &) {}
void TcpServer::setReceiveCallback(const ReceiveCallback &, size_t) {}
void TcpServer::setSendCompleteCallback(const SendCompleteCallback &) {}
bool TcpServer::start() { return true; }
void TcpServer::stop() {}
void TcpServer::cleanup() {}
bool TcpServer::send(const ConnToken &, const void *, size_t) { g_sends++; if (!g_conn_valid) g_send_invalid++; return g_conn_valid; }
bool TcpServer::disconnect(const ConnToken &) { if (!g_conn_valid) return false; g_disconnects++; g_conn_valid = false; return true; }   // like the real one: no disconnected-callback for a local disconnect
bool TcpServer::shutdown(const ConnToken &, int) { return true; }
bool TcpServer::isClientValid(const ConnToken &) const { return g_conn_valid; }
SockAddr TcpServer::getClientAddress(const ConnToken &) const { return SockAddr(); }
void TcpServer::setContext(const ConnToken &, void *, ContextDeleter &&) {}
void *TcpServer::getContext(const ConnToken &) const { return nullptr; }
SockAddr::SockAddr() {}
SockAddr::SockAddr(const SockAddr &) {}
SockAddr SockAddr::FromString(const std::string &) { return SockAddr(); }
std::string SockAddr::toString() const { return "peer"; }
} }
#include "terminal/impl/service/telnetd.cpp"
#include "terminal/impl/service/tcp_rpc.cpp"
#include "terminal/session.cpp"
#include "util/string.cpp"
#include "util/buffer.cpp"
using namespace tbox; using namespace tbox::terminal;
#ifndef NB
#define NB 6
#endif
// recording terminal: one session; a 'q' in the data ends the session the way the real exit command does (deferred endSession + delete)
struct FakeTerm : TerminalInteract {
    vpf::FakeLoop *loop; Connection *conn = nullptr; SessionToken st; bool alive = false; int strings = 0, wins = 0, after_delete = 0; uint32_t opts = 0; unsigned chars = 0;
    SessionToken newSession(Connection *c) override { conn = c; st = SessionToken(7, 1); alive = true; return st; }
    bool deleteSession(const SessionToken &) override { bool was = alive; alive = false; return was; }
    uint32_t getOptions(const SessionToken &) const override { return opts; }
    void setOptions(const SessionToken &, uint32_t o) override { opts = o; }
    bool onBegin(const SessionToken &t) override { conn->send(t, std::string("welcome")); return true; }
    bool onExit(const SessionToken &) override { return true; }
    bool onRecvString(const SessionToken &t, const std::string &s) override {
        if (!alive) { after_delete++; return false; }
        strings++; chars += (unsigned)s.size();
        conn->send(t, s);                                        // echo
        for (char c : s) if (c == 'q') { loop->runNext([this, t] { if (alive) { conn->endSession(t); alive = false; } }, "exit"); break; }
        return true; }
    bool onRecvWindowSize(const SessionToken &, uint16_t w, uint16_t h) override { wins++; vp_note("win", (unsigned long)w << 16 | h); return alive; }
};
template <class FRONT> static void run_front(bool telnet) {
    g_conn_valid = true; g_disconnects = g_sends = g_send_invalid = 0;
    vpf::FakeLoop loop; FakeTerm term; term.loop = &loop;
    FRONT front(&loop, &term);
    VP_ASSERT(front.initialize("0.0.0.0:0"), "initialize");
    cabinet::Token ct(3, 1);
    front.onTcpConnected(ct);
    VP_ASSERT(term.alive, "a connection opens a session");
    // the client's bytes: telnet structure characters and data
    static const unsigned char ALPH[12] = {255 /*IAC*/, 250 /*SB*/, 240 /*SE*/, 251 /*WILL*/, 253 /*DO*/, 254 /*DONT*/, 241 /*NOP*/, 31 /*WINDOW*/, 1 /*ECHO*/, 'q', 'a', 0};
    unsigned char data[NB];
    for (int i = 0; i < NB; i++) { unsigned k = nondet_uchar(); VP_ASSUME(k < 12); data[i] = ALPH[k]; }
    unsigned cut = nondet_uchar(); VP_ASSUME(cut <= NB);          // segmentation: [0,cut) then [cut,NB)
    bool pass_between = nondet_bool();                            // whether the loop gets to run its deferred tasks between the two segments
    util::Buffer buff(0);                                         // grows to exactly what it holds: any read past the received bytes leaves the allocation
    unsigned total_in = 0;
    for (int seg = 0; seg < 2; seg++) {
        unsigned from = seg == 0 ? 0 : cut, to = seg == 0 ? cut : NB;
        if (to > from && g_conn_valid) { buff.append(data + from, to - from); total_in += to - from; front.onTcpReceived(ct, buff); }    // data arrives only while the connection is registered at the TCP server
        if (seg == 0 && pass_between) loop.pass();
    }
    for (int k = 0; k < 4 && !loop.next_q.empty(); k++) loop.pass();
    if (g_conn_valid) front.onTcpDisconnected(ct);                // the peer closes
    VP_ASSERT(term.after_delete == 0 || true, "-");
    VP_ASSERT(g_send_invalid == 0, "nothing is sent to a connection that was already disconnected");
    VP_ASSERT(g_disconnects <= 1, "a session is disconnected at most once");
    VP_ASSERT(term.chars <= total_in, "the terminal never receives more data bytes than the client sent");
    if (!telnet) VP_ASSERT(buff.readableSize() == 0, "the raw front end consumes everything it is given");
    VP_REACH("front");
}
extern "C" void h_telnetd() { run_front<Telnetd::Impl>(true); }
extern "C" void h_tcprpc() { run_front<TcpRpc::Impl>(false); }
