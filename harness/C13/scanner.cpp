// C13 (key scanner): total on arbitrary bytes, state stays inside its enumerations (engine A).
#include "vp.h"
#include "terminal/impl/key_event_scanner.cpp"
using namespace tbox::terminal;
#ifndef NB
#define NB 6
#endif
extern "C" void h_scanner_any() {
    KeyEventScanner sc; sc.start();
    for (int i = 0; i < NB; i++) {
        unsigned char b = nondet_uchar();
        KeyEventScanner::Status st = sc.next(b);
        VP_ASSERT(st == KeyEventScanner::Status::kUnsure || st == KeyEventScanner::Status::kEnsure || st == KeyEventScanner::Status::kFail, "status is one of the three documented values");
        VP_ASSERT((int)sc.step_ >= 0 && (int)sc.step_ <= (int)KeyEventScanner::Step::k1b4f, "scanner state stays inside its enumeration");
        if (st == KeyEventScanner::Status::kEnsure) {
            VP_ASSERT((int)sc.result() > (int)KeyEventScanner::Result::kNone && (int)sc.result() <= (int)KeyEventScanner::Result::kF12, "a recognised key is one of the documented results");
            if (sc.result() == KeyEventScanner::Result::kPrintable) VP_ASSERT(sc.extra() == b && b >= 0x20 && b <= 0x7e, "printable result carries the printable byte");
            sc.start();
        } else if (st == KeyEventScanner::Status::kFail) sc.start();
    }
    (void)sc.stop();
    VP_REACH("scanner_any");
}
