// C13 (line editor, history, history references): real terminal::Terminal::Impl on a fake Connection (engine B).
#include "vp.h"
#define TRACE_MODULE_ID "vp"
#include "vp_stubs.hpp"
#include "terminal/impl/terminal.cpp"
#include "terminal/impl/terminal_key_events.cpp"
#include "terminal/impl/terminal_commands.cpp"
#include "terminal/impl/terminal_nodes.cpp"
#include "terminal/impl/key_event_scanner.cpp"
#include "terminal/impl/dir_node.cpp"
#include "terminal/impl/func_node.cpp"
#include "terminal/session.cpp"
#include "util/string.cpp"
#include "util/split_cmdline.cpp"
using namespace tbox; using namespace tbox::terminal;
static int g_prompts; static std::string g_last; static int g_range_err, g_parse_err;
struct FakeConn : Connection {
    bool send(const SessionToken &, char) override { return true; }
    bool send(const SessionToken &, const std::string &s) override {
        if (s == "# ") g_prompts++;
        if (s == "Error: index out of range.\r\n") g_range_err++;
        if (s == "Error: parse index fail.\r\n") g_parse_err++;
        g_last = s; return true; }
    bool endSession(const SessionToken &) override { return true; }
    bool isValid(const SessionToken &) const override { return true; }
};
#ifndef NKEYS
#define NKEYS 4
#endif
// reference line editor
struct Ref { char line[16]; int len; int cur; int hidx; };
static const char *const HIST[] = {"hh1", "x"};        // oldest, newest (different lengths; the newest can be emptied with one backspace)
static void ref_set(Ref &r, const char *s) { r.len = 0; while (s[r.len]) { r.line[r.len] = s[r.len]; r.len++; } r.cur = r.len; }
extern "C" void h_editor() {
    FakeConn conn; Terminal::Impl term(nullptr);
    SessionToken st = term.newSession(&conn);
    term.setOptions(st, Terminal::kEnableEcho);
    SessionContext *s = term.sessions_.at(st);
    int nh = nondet_bool() ? 2 : 0;                                   // history pre-state: empty or two stored lines
    for (int i = 0; i < nh; i++) s->history.push_back(HIST[i]);
    Ref r; r.len = 0; r.cur = 0; r.hidx = 0;
    for (int k = 0; k < NKEYS; k++) {
        unsigned key = nondet_uchar(); VP_ASSUME(key <= 10);
        std::string bytes;
        switch (key) {
        case 0: { char c = (char)('a' + k); bytes = std::string(1, c);          // a printable character (the editor logic does not depend on which)                        // printable: insert at cursor
                  if (r.len < 15) { for (int i = r.len; i > r.cur; i--) r.line[i] = r.line[i - 1]; r.line[r.cur] = c; r.len++; r.cur++; } break; }
        case 1: bytes = "\x7f"; if (r.cur > 0) { for (int i = r.cur - 1; i + 1 < r.len; i++) r.line[i] = r.line[i + 1]; r.len--; r.cur--; } break;   // backspace
        case 2: bytes = "\x1b[3~"; if (r.cur < r.len) { for (int i = r.cur; i + 1 < r.len; i++) r.line[i] = r.line[i + 1]; r.len--; } break;     // delete
        case 3: bytes = "\x1b[D"; if (r.cur > 0) r.cur--; break;                                                                              // left
        case 4: bytes = "\x1b[C"; if (r.cur < r.len) r.cur++; break;                                                                          // right
        case 5: bytes = "\x1b[1~"; r.cur = 0; break;                                                                                          // home
        case 6: bytes = "\x1b[4~"; r.cur = r.len; break;                                                                                      // end
        case 7: bytes = "\x1b[A"; if (r.hidx < nh) { r.hidx++; ref_set(r, HIST[nh - r.hidx]); } break;                                        // history up
        case 8: bytes = "\x1b[B"; if (r.hidx > 0) { r.hidx--; if (r.hidx > 0) ref_set(r, HIST[nh - r.hidx]); else { r.len = 0; r.cur = 0; } } break;   // history down
        case 10: { char c = '!'; bytes = "!";                                     // '!' typed in front of text makes a history reference (usually one that fails: the line is then not stored)
                  if (r.len < 15) { for (int i = r.len; i > r.cur; i--) r.line[i] = r.line[i - 1]; r.line[r.cur] = c; r.len++; r.cur++; } break; }
        default: bytes = "\t"; break;                                                                                                         // tab: no effect
        }
        VP_ASSERT(term.onRecvString(st, bytes), "key accepted");
        VP_ASSERT((int)s->curr_input.size() == r.len && (int)s->cursor == r.cur, "line length and cursor equal the reference line editor");
        for (int i = 0; i < r.len; i++) VP_ASSERT(s->curr_input[i] == r.line[i], "line content equals the reference line editor");
    }
    // Enter: the line executed is the edited line; exactly one new prompt; editor state reset
    int p0 = g_prompts = 0; size_t h0 = s->history.size();
    VP_ASSERT(term.onRecvString(st, "\r\n"), "enter accepted");
    VP_ASSERT(g_prompts == p0 + 1, "each Enter is answered by exactly one new prompt");
    VP_ASSERT(s->curr_input.empty() && s->cursor == 0 && s->history_index == 0, "the editor starts a fresh line after Enter");
    if (r.len > 0 && r.line[0] != '!' && r.line[0] != ';' && r.line[0] != ' ' ) {
        bool is_history_cmd = (r.len >= 7 && r.line[0]=='h'&&r.line[1]=='i'&&r.line[2]=='s'&&r.line[3]=='t'&&r.line[4]=='o'&&r.line[5]=='r'&&r.line[6]=='y');
        if (!is_history_cmd && s->history.size() == h0 + 1) { const std::string &e = s->history.back(); VP_ASSERT((int)e.size() == r.len, "the stored line is the line the reference editor produced");
            for (int i = 0; i < r.len; i++) VP_ASSERT(e[i] == r.line[i], "the stored line is the line the reference editor produced"); }
    }
    // the next line starts from scratch whatever the Enter did (stored, not stored, failed reference): Up recalls the newest stored line
    if (!s->history.empty()) {
        std::string newest = s->history.back();
        VP_ASSERT(term.onRecvString(st, "\x1b[A"), "key accepted");
        VP_ASSERT(s->curr_input == newest, "after any Enter, history-up recalls the newest stored line (browsing restarts with every new line)");
    }
    VP_REACH("editor");
}
// history keeps the most recent 20 stored lines in order
extern "C" void h_history20() {
    FakeConn conn; Terminal::Impl term(nullptr);
    SessionToken st = term.newSession(&conn);
    SessionContext *s = term.sessions_.at(st);
    unsigned k = nondet_uchar(); VP_ASSUME(k <= 21);
    for (unsigned i = 0; i < k; i++) { char name[4] = {'c', char('a' + i), 0, 0}; VP_ASSERT(term.onRecvString(st, std::string(name) + "\r\n"), "line accepted"); }
    VP_ASSERT(s->history.size() == (k < 20 ? k : 20), "history holds min(lines, 20) entries");
    unsigned first = k > 20 ? k - 20 : 0;
    for (unsigned i = 0; i < s->history.size(); i++) VP_ASSERT(s->history[i].size() == 2 && s->history[i][1] == char('a' + first + i), "history holds the most recent lines in order");
    VP_REACH("history20");
}
// !n / !-n / !! with ANY decimal argument text re-run exactly the addressed entry or report an error; never an exception
#ifndef NH
#define NH 3
#endif
extern "C" void h_history_ref() {
    FakeConn conn; Terminal::Impl term(nullptr);
    SessionToken st = term.newSession(&conn);
    SessionContext *s = term.sessions_.at(st);
    for (int i = 0; i < NH; i++) { char name[4] = {'c', char('a' + i), 0, 0}; s->history.push_back(name); }
    unsigned form = nondet_uchar(); VP_ASSUME(form <= 3);
    std::string cmd = "!"; long want = -1;                            // index of the addressed entry, -1 = none
    if (form == 0) { cmd += "!"; want = NH ? NH - 1 : -1; }
    else if (form == 1 || form == 2) {                                // !d / !-d with symbolic digits (1-2 digits)
        bool neg = form == 2; if (neg) cmd += "-";
        unsigned nd = nondet_bool() ? 2 : 1; long v = 0;
        for (unsigned i = 0; i < nd; i++) { char d = (char)nondet_uchar(); VP_ASSUME(d >= '0' && d <= '9'); cmd += d; v = v * 10 + (d - '0'); }
        if (!neg) want = v < NH ? v : -1; else want = (v >= 1 && v <= NH) ? NH - v : (v == 0 ? (NH > 0 ? -1 : -1) : -1);
        if (neg && v == 0) want = 0 < NH ? 0 : -1;                    // "!-0" parses to 0: the first entry
    } else {                                                          // extreme arguments
        unsigned w = nondet_uchar(); VP_ASSUME(w <= 3);
        static const char *const X[] = {"99999999999", "-99999999999", "-2147483648", "2147483647"};
        cmd += X[w];
    }
    g_range_err = g_parse_err = 0; g_prompts = 0; g_last.clear();
    std::string expect_line = want >= 0 ? s->history[(size_t)want] : std::string();
    VP_ASSERT(term.onRecvString(st, cmd + "\r\n"), "line accepted");   // an escaping exception / invalid access is reported by the engine
    VP_ASSERT(g_prompts == 1, "exactly one new prompt");
    if (want >= 0) { VP_ASSERT(g_range_err == 0 && g_parse_err == 0, "an existing entry is re-run without an error message");
                     VP_ASSERT(s->history.back() == expect_line, "exactly the addressed entry was re-run (and stored as the newest line)"); }
    else VP_ASSERT(g_range_err + g_parse_err >= 1 && s->history.size() == NH, "a reference to a missing entry reports an error and runs nothing");
    VP_REACH("history_ref");
}
