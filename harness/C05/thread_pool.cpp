// C05: thread pool — tasks run once on workers, consistent status/cancel answers, priority order, cleanup terminates, no data races.
// Real eventx/thread_pool.cpp (+ Cabinet, ObjectPool) under engine B's thread scheduler; the main loop is a small thread-safe fake
// that queues runInLoop() calls for the harness (= loop thread) to run.
#include "vp.h"
#define TRACE_MODULE_ID "vp"
#define VP_STUB_CATCHTHROW
#include "vp_stubs.hpp"
#include "vp_fakes.hpp"
#include <mutex>
#include <pthread.h>
struct SafeLoop : vpf::FakeLoop {             // runInLoop may be called from worker threads: protect the queue like the real loop does
    std::mutex m;
    RunId runInLoop(Func &&f, const std::string &) override { std::lock_guard<std::mutex> g(m); return push(std::move(f)); }
    RunId runInLoop(const Func &f, const std::string &) override { std::lock_guard<std::mutex> g(m); return push(f); }
    int drain() { int k = 0; for (;;) { Func f; { std::lock_guard<std::mutex> g(m); if (next_q.empty()) break; f = std::move(next_q.front().second); next_q.pop_front(); } if (f) f(); k++; } return k; }
};
#include "eventx/thread_pool.cpp"
using namespace tbox; using namespace tbox::eventx;
#ifndef MINT
#define MINT 1
#endif
#ifndef MAXT
#define MAXT 1
#endif
#ifndef NTASK
#define NTASK 1
#endif
static int ran[2], done[2], ran_on_main[2], order_seq, ran_order[2]; static pthread_t main_tid; static int body_after_cb[2];
#ifdef STRICT      // see work_thread.cpp
#include <atomic>
static std::atomic<int> a_ran; static int nf_ran = -1;
#endif
extern "C" void h_pool() {
    for (int i = 0; i < 2; i++) { ran[i] = done[i] = ran_on_main[i] = 0; ran_order[i] = -1; body_after_cb[i] = 0; } order_seq = 0;
    main_tid = pthread_self();
#ifdef STRICT
    a_ran.store(0); nf_ran = -1;
#endif
    SafeLoop loop; ThreadPool tp(&loop);
    VP_ASSERT(tp.initialize(MINT, MAXT), "initialize");
    ThreadPool::TaskToken tok[2];
    int prio[2] = {0, 0};
    for (int t = 0; t < NTASK; t++) {
#if NTASK == 2
        prio[t] = nondet_bool() ? 1 : 0;                           // two priority levels (smaller value = higher priority)
#endif
        tok[t] = tp.execute([t] { if (pthread_equal(pthread_self(), main_tid)) ran_on_main[t] = 1; ran_order[t] = order_seq++; ran[t]++;
#ifdef STRICT
            if (t == 0) a_ran.store(1);
#endif
            },
                            [t] { if (ran[t] == 0) body_after_cb[t] = 1; done[t]++; }, prio[t]);
        VP_ASSERT(!tok[t].isNull(), "task accepted");
    }
    bool saw_notfound = false, cancelled = false, said_running = false;
    unsigned op = nondet_uchar(); VP_ASSUME(op <= 2);                 // what the loop thread does next, concurrently with the workers
    if (op == 1) { ThreadPool::TaskStatus s = tp.getTaskStatus(tok[0]); if (s == ThreadPool::TaskStatus::kNotFound) saw_notfound = true; }
    else if (op == 2) { int r = tp.cancel(tok[0]); if (r == 0) cancelled = true; if (r == 2) said_running = true; if (r == 1) saw_notfound = true; }
#ifdef STRICT
    if (saw_notfound) nf_ran = a_ran.load();
#endif
    tp.cleanup();                                                     // a hang here (worker never woken) is reported by the engine as a deadlock
    loop.drain();
#ifdef STRICT
    if (saw_notfound) VP_ASSERT(nf_ran == 1 || ran[0] == 0, "when a task is reported as not found its body has already run, or it never runs");
#endif
    for (int t = 0; t < NTASK; t++) {
        VP_ASSERT(ran[t] <= 1, "a task is executed at most once");
        VP_ASSERT(!ran_on_main[t], "a task is never executed on the loop thread");
        VP_ASSERT(done[t] == ran[t], "the completion callback runs exactly once on the loop thread iff the task body ran");
        VP_ASSERT(!body_after_cb[t], "the completion callback runs after the task body has returned");
    }
    if (cancelled) VP_ASSERT(ran[0] == 0, "a task whose cancellation reported success never runs");
    if (said_running) VP_ASSERT(ran[0] == 1, "a task reported as executing does run to completion");
    if (saw_notfound) VP_ASSERT(ran[0] == 0 || done[0] == 1, "a task reported as not found has finished (or will never run)");
    VP_REACH("pool");
}

// second life + FIFO: the pool is initialised, cleaned up and initialised AGAIN; then with the single worker kept busy three tasks of one
// priority are queued, the middle one is cancelled, and the loop thread waits (on a condition variable signalled by the last task) until
// the rest has run. A pool whose workers never pick tasks leaves the loop thread blocked forever = deadlock reported by the engine.
#include <condition_variable>
static std::mutex g_m; static std::condition_variable g_cv; static bool g_gate_open, g_last_done; static int g_seq[4], g_nseq;
extern "C" void h_pool_fifo() {
    g_gate_open = false; g_last_done = false; g_nseq = 0;
    SafeLoop loop; ThreadPool tp(&loop);
    VP_ASSERT(tp.initialize(1, 1), "initialize"); tp.cleanup();
    VP_ASSERT(tp.initialize(1, 1), "initialize again after cleanup");
    auto body = [](int id, bool last) { return [id, last] { std::unique_lock<std::mutex> lk(g_m); if (id == 0) g_cv.wait(lk, [] { return g_gate_open; }); g_seq[g_nseq++] = id; if (last) { g_last_done = true; g_cv.notify_all(); } }; };
    ThreadPool::TaskToken t0 = tp.execute(body(0, false));        // keeps the only worker busy until the gate opens
    ThreadPool::TaskToken t1 = tp.execute(body(1, false));
    ThreadPool::TaskToken t2 = tp.execute(body(2, false));
    ThreadPool::TaskToken t3 = tp.execute(body(3, true));
    (void)t0; (void)t2; (void)t3;
    int c = tp.cancel(t1);
    { std::unique_lock<std::mutex> lk(g_m); g_gate_open = true; g_cv.notify_all(); g_cv.wait(lk, [] { return g_last_done; }); }
    tp.cleanup();
    if (c == 0) { VP_ASSERT(g_nseq == 3 && g_seq[0] == 0 && g_seq[1] == 2 && g_seq[2] == 3, "waiting tasks of one priority run first-in-first-out; the cancelled one never runs"); }
    else { VP_ASSERT(g_nseq == 4 && g_seq[0] == 0 && g_seq[1] == 1 && g_seq[2] == 2 && g_seq[3] == 3, "waiting tasks of one priority run first-in-first-out"); }
    VP_REACH("pool_fifo");
}

// priority order: the single worker is kept busy; three tasks with symbolic priorities - including values outside the documented range
// [THREAD_POOL_PRIO_MIN, THREAD_POOL_PRIO_MAX], which are accepted and treated as the nearest bound - wait behind it; once the gate opens
// they must run by (effective priority, submission order).
extern "C" void h_pool_prio() {
    g_gate_open = false; g_last_done = false; g_nseq = 0;
    SafeLoop loop; ThreadPool tp(&loop);
    VP_ASSERT(tp.initialize(1, 1), "initialize");
    int prio[4]; prio[0] = 0;
    for (int i = 1; i <= 3; i++) { unsigned u = nondet_uchar(); VP_ASSUME(u <= 6); prio[i] = (int)u - 3; }      // -3 .. 3
    static int S_done;  S_done = 0;
    auto body = [](int id) { return [id] { std::unique_lock<std::mutex> lk(g_m); if (id == 0) g_cv.wait(lk, [] { return g_gate_open; }); g_seq[g_nseq++] = id; if (g_nseq == 4) { g_last_done = true; g_cv.notify_all(); } }; };
    for (int i = 0; i <= 3; i++) { ThreadPool::TaskToken t = tp.execute(body(i), prio[i]); VP_ASSERT(!t.isNull(), "task accepted (also with an out-of-range priority)"); }
    { std::unique_lock<std::mutex> lk(g_m); g_gate_open = true; g_cv.notify_all(); g_cv.wait(lk, [] { return g_last_done; }); }
    tp.cleanup();
    VP_ASSERT(g_nseq == 4, "all four tasks ran");
    // task 0 either was picked before the others were queued (first), or competes by priority like the rest
    for (int a = 0; a < 4; a++) for (int b = a + 1; b < 4; b++) {
        int x = g_seq[a], y = g_seq[b];               // x ran before y
        if (x == 0 && a == 0) continue;               // the gate task may have been picked before the others arrived
        int px = prio[x] < -2 ? -2 : (prio[x] > 2 ? 2 : prio[x]), py = prio[y] < -2 ? -2 : (prio[y] > 2 ? 2 : prio[y]);
        VP_ASSERT(px < py || (px == py && x < y), "waiting tasks are picked in priority order (smaller value first, out-of-range values clamped) and first-in-first-out within a priority");
    }
    VP_REACH("pool_prio");
}

// retiring worker vs. a new task: with min 0 / max 1 the only worker retires when it finds nothing to do; a task submitted at any moment
// around that must still get a worker. The loop thread waits for each task's completion (a task nobody executes = deadlock reported by the engine).
static int g_done_cnt;
extern "C" void h_pool_retire() {
    g_done_cnt = 0;
    SafeLoop loop; ThreadPool tp(&loop);
    VP_ASSERT(tp.initialize(0, 1), "initialize");
    for (int k = 1; k <= 2; k++) {
        ThreadPool::TaskToken t = tp.execute([] { std::unique_lock<std::mutex> lk(g_m); g_done_cnt++; g_cv.notify_all(); });
        VP_ASSERT(!t.isNull(), "task accepted");
        { std::unique_lock<std::mutex> lk(g_m); g_cv.wait(lk, [k] { return g_done_cnt >= k; }); }       // the application waits for the result
        loop.drain();
    }
    tp.cleanup(); loop.drain();
    VP_ASSERT(g_done_cnt == 2, "both tasks ran exactly once");
    VP_REACH("pool_retire");
}
