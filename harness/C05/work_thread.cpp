// C05 (single work thread): the same contract as the pool with one worker - tasks run once on the worker, status/cancel answers are
// consistent with what then happens, waiting tasks run first-in-first-out, cleanup terminates, no data races.
// Real eventx/work_thread.cpp (+ Cabinet, ObjectPool) under engine B's thread scheduler; thread-safe fake main loop as in thread_pool.cpp.
#include "vp.h"
#define TRACE_MODULE_ID "vp"
#define VP_STUB_CATCHTHROW
#include "vp_stubs.hpp"
#include "vp_fakes.hpp"
#include <mutex>
#include <condition_variable>
#include <pthread.h>
struct SafeLoop : vpf::FakeLoop {
    std::mutex m;
    RunId runInLoop(Func &&f, const std::string &) override { std::lock_guard<std::mutex> g(m); return push(std::move(f)); }
    RunId runInLoop(const Func &f, const std::string &) override { std::lock_guard<std::mutex> g(m); return push(f); }
    int drain() { int k = 0; for (;;) { Func f; { std::lock_guard<std::mutex> g(m); if (next_q.empty()) break; f = std::move(next_q.front().second); next_q.pop_front(); } if (f) f(); k++; } return k; }
};
#include "eventx/work_thread.cpp"
using namespace tbox; using namespace tbox::eventx;
static int ran, done, ran_on_main, body_after_cb; static pthread_t main_tid;
#ifdef STRICT      // strict answers: what a status / cancel answer claims is compared with what had happened AT THAT MOMENT (atomic ghost counter;
#include <atomic>  // separate job because the atomic adds a happens-before edge the race check of the plain job must not rely on)
static std::atomic<int> a_ran; static int nf_ran = -1;
#endif
extern "C" void h_wt() {
    ran = done = ran_on_main = body_after_cb = 0; main_tid = pthread_self();
#ifdef STRICT
    a_ran.store(0); nf_ran = -1;
#endif
    SafeLoop loop;
    bool saw_notfound = false, cancelled = false, said_running = false, said_waiting = false;
    {
        WorkThread wt(&loop);
        WorkThread::TaskToken tok = wt.execute([] { if (pthread_equal(pthread_self(), main_tid)) ran_on_main = 1; ran++;
#ifdef STRICT
            a_ran.store(1);
#endif
            }, [] { if (ran == 0) body_after_cb = 1; done++; }, nullptr);
        VP_ASSERT(!tok.isNull(), "task accepted");
        unsigned op = nondet_uchar(); VP_ASSUME(op <= 2);                 // what the loop thread does next, concurrently with the worker
        if (op == 1) { WorkThread::TaskStatus s = wt.getTaskStatus(tok); if (s == WorkThread::TaskStatus::kNotFound) saw_notfound = true; if (s == WorkThread::TaskStatus::kWaiting) said_waiting = true; }
        else if (op == 2) { int r = wt.cancel(tok); if (r == 0) cancelled = true; if (r == 2) said_running = true; if (r == 1) saw_notfound = true; }
#ifdef STRICT
        if (saw_notfound) nf_ran = a_ran.load();
#endif
        wt.cleanup();                                                     // a hang here (worker never woken) is reported by the engine as a deadlock
    }
    loop.drain();
    VP_ASSERT(ran <= 1, "a task is executed at most once");
    VP_ASSERT(!ran_on_main, "a task is never executed on the loop thread");
    VP_ASSERT(done == ran, "the completion callback runs exactly once on the loop thread iff the task body ran");
    VP_ASSERT(!body_after_cb, "the completion callback runs after the task body has returned");
    if (cancelled) VP_ASSERT(ran == 0, "a task whose cancellation reported success never runs");
    if (said_running) VP_ASSERT(ran == 1, "a task reported as executing does run to completion");
    if (saw_notfound) VP_ASSERT(ran == 0 || done == 1, "a task reported as not found has finished (or will never run)");
#ifdef STRICT
    if (saw_notfound) VP_ASSERT(nf_ran == 1 || ran == 0, "when a task is reported as not found its body has already run, or it never runs (no window in which a task that is about to run is in neither set)");
#endif
    (void)said_waiting;
    VP_REACH("wt");
}
// FIFO: the worker is kept busy by the first task; NW tasks wait behind it; one of them (symbolic) is cancelled; the gate opens and the
// loop thread waits for the last task. The tasks that were not cancelled must run in submission order.
#ifndef NW
#define NW 4
#endif
static std::mutex g_m; static std::condition_variable g_cv; static bool g_gate_open; static int g_seq[NW + 1], g_nseq, g_expect;
extern "C" void h_wt_fifo() {
    g_gate_open = false; g_nseq = 0;
    SafeLoop loop;
    unsigned victim = nondet_uchar(); VP_ASSUME(victim <= NW);            // 0: nobody is cancelled; k: the k-th waiting task
    int c = -1;
    {
        WorkThread wt(&loop);
        WorkThread::TaskToken tok[NW + 1];
        for (int i = 0; i <= NW; i++)
            tok[i] = wt.execute([i] { std::unique_lock<std::mutex> lk(g_m); if (i == 0) g_cv.wait(lk, [] { return g_gate_open; }); g_seq[g_nseq++] = i; if (g_nseq == g_expect) g_cv.notify_all(); });
        if (victim != 0) c = wt.cancel(tok[victim]);
        // task 0 may or may not have been picked yet; tasks 1..NW are certainly waiting (the worker is busy with 0 or has not started) unless victim == ... (victim >= 1 always waits)
        if (victim != 0) VP_ASSERT(c == 0, "a task that is still waiting can be cancelled");
        { std::unique_lock<std::mutex> lk(g_m); g_expect = NW + 1 - (victim != 0 ? 1 : 0); g_gate_open = true; g_cv.notify_all(); g_cv.wait(lk, [] { return g_nseq == g_expect; }); }
        wt.cleanup();
    }
    int k = 0;
    for (int i = 0; i <= NW; i++) { if (victim != 0 && i == (int)victim) continue; VP_ASSERT(g_seq[k] == i, "waiting tasks run first-in-first-out; a cancelled task never runs and does not disturb the order of the others"); k++; }
    VP_ASSERT(k == g_nseq, "every task that was not cancelled ran exactly once");
    VP_REACH("wt_fifo");
}
