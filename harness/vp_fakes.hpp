// Small fakes of the abstract event interfaces (event::Loop / event::TimerEvent), shared by harnesses of code that only
// *uses* a loop. Deferred calls are queued and run by the harness ("loop passes"); timers record their armed interval.
#ifndef VP_FAKES_HPP
#define VP_FAKES_HPP
#include <tbox/event/loop.h>
#include <tbox/event/timer_event.h>
#include <tbox/event/fd_event.h>
#include <tbox/event/signal_event.h>
#include <deque>
#include <vector>
namespace vpf {
using namespace tbox;
struct FakeTimer : event::TimerEvent {
    FakeTimer() : event::TimerEvent("vp") {}
    CallbackFunc cb; long long span_ms = -1; bool on = false; Mode mode = Mode::kOneshot; int enables = 0; int inits = 0;
    bool initialize(const std::chrono::milliseconds &t, Mode m) override { span_ms = t.count(); mode = m; on = false; inits++; return true; }
    void setCallback(CallbackFunc &&c) override { cb = std::move(c); }
    bool isEnabled() const override { return on; }
    bool enable() override { if (!on) { on = true; enables++; } return true; }
    bool disable() override { on = false; return true; }
    event::Loop *getLoop() const override { return nullptr; }
    void fire() { if (mode == Mode::kOneshot) on = false; if (cb) cb(); }     // what the loop does when the timer expires
};
struct FakeFdEvent : event::FdEvent {
    FakeFdEvent() : event::FdEvent("vp") {}
    CallbackFunc cb; int fd = -1; short events = 0; Mode mode = Mode::kPersist; bool on = false;
    bool initialize(int f, short e, Mode m) override { fd = f; events = e; mode = m; on = false; return true; }
    void setCallback(CallbackFunc &&c) override { cb = std::move(c); }
    bool isEnabled() const override { return on; }
    bool enable() override { on = true; return true; }
    bool disable() override { on = false; return true; }
    event::Loop *getLoop() const override { return nullptr; }
    void fire(short ev) { if (mode == Mode::kOneshot) on = false; if (cb) cb(ev); }
};
struct FakeLoop : event::Loop {
    std::deque<std::pair<RunId, Func>> next_q; RunId last_id = 0; std::vector<FakeTimer*> timers; std::vector<FakeFdEvent*> fdevs;
    void runLoop(Mode) override {} void exitLoop(const std::chrono::milliseconds &) override {}
    bool isInLoopThread() override { return true; } bool isRunning() const override { return true; }
    RunId push(Func f) { next_q.push_back(std::make_pair(++last_id, std::move(f))); return last_id; }
    RunId runInLoop(Func &&f, const std::string &) override { return push(std::move(f)); } RunId runInLoop(const Func &f, const std::string &) override { return push(f); }
    RunId runNext(Func &&f, const std::string &) override { return push(std::move(f)); } RunId runNext(const Func &f, const std::string &) override { return push(f); }
    RunId run(Func &&f, const std::string &) override { return push(std::move(f)); } RunId run(const Func &f, const std::string &) override { return push(f); }
    bool cancel(RunId id) override { for (auto it = next_q.begin(); it != next_q.end(); ++it) if (it->first == id) { next_q.erase(it); return true; } return false; }
    event::FdEvent *newFdEvent(const std::string &) override { FakeFdEvent *e = new FakeFdEvent; fdevs.push_back(e); return e; }
    event::TimerEvent *newTimerEvent(const std::string &) override { FakeTimer *t = new FakeTimer; timers.push_back(t); return t; }
    event::SignalEvent *newSignalEvent(const std::string &) override { return nullptr; }
    event::Stat getStat() const override { return event::Stat(); } void resetStat() override {}
    WaterLine wl; WaterLine &water_line() override { return wl; } void cleanup() override {}
    // one loop pass: run what was queued before the pass started
    int pass() { size_t n = next_q.size(); int k = 0; while (n-- && !next_q.empty()) { Func f = std::move(next_q.front().second); next_q.pop_front(); if (f) f(); k++; } return k; }
};
}
#endif
