// C16: hierarchical state machine == reference semantics. Real flow::StateMachine; the machine definition (routes with wildcard
// events / guards / targets, per-state event handlers, position of the sub-machine), guard and handler results and the call
// sequence are symbolic. The observable trace must equal the trace of a small array-based reference interpreter.
#include "vp.h"
#include <tbox/base/json.hpp>
#include "flow/state_machine.cpp"
using namespace tbox::flow;
#ifndef NSTEP
#define NSTEP 3
#endif
#define NS 2              // user states 1..NS per machine (+ terminal state 0)
#define NRT 2             // routes per state
#define NM 2              // machine 0 = top, machine 1 = sub-machine
#ifndef SUBST
#define SUBST 2
#endif
#ifndef RSLOT
#define RSLOT 3
#endif
struct RouteDef { int ev; int to; bool guard; };
static RouteDef R[NM][NS + 1][NRT]; static bool has_handler[NM][NS + 1]; static int sub_state;      // state of machine 0 that owns machine 1 (0 = none)
static bool gres[24]; static int hres[12];                      // pre-drawn guard / handler results, consumed in evaluation order
static int g_impl, g_ref, h_impl, h_ref;
enum K { T_GUARD = 1, T_EXIT, T_ACT, T_ENTER, T_CHANGED, T_HANDLER };
static int tr_impl[96][4], n_impl, tr_ref[96][4], n_ref;
static void log_i(int k, int m, int a, int b) { if (n_impl < 96) { tr_impl[n_impl][0] = k; tr_impl[n_impl][1] = m; tr_impl[n_impl][2] = a; tr_impl[n_impl][3] = b; } n_impl++; }
static void log_r(int k, int m, int a, int b) { if (n_ref < 96) { tr_ref[n_ref][0] = k; tr_ref[n_ref][1] = m; tr_ref[n_ref][2] = a; tr_ref[n_ref][3] = b; } n_ref++; }
static StateMachine *SM[NM];
static int reent_slot, reent_kind; static bool reent_fired;   // one action slot performs a call on its own machine: it must be rejected
static void reenter(int m, int slot) {
    if (slot != reent_slot || m != 0 || reent_fired) return;
    reent_fired = true;
    int before = SM[0]->currentState(); bool run0 = SM[0]->isRunning();
    bool r = reent_kind == 0 ? SM[0]->run(Event(1)) : reent_kind == 1 ? SM[0]->start() : (SM[0]->stop(), false);
    VP_ASSERT(!r, "a call made on a machine from inside its own action is rejected");
    VP_ASSERT(SM[0]->currentState() == before && SM[0]->isRunning() == run0, "a rejected re-entrant call does not change the machine's state");
}
// ---------------- reference interpreter ----------------
static bool run_[NM]; static int cur_[NM];
static bool ref_start(int m);
static bool ref_run(int m, int ev);
static void ref_stop(int m) {
    if (!run_[m]) return;
    if (m == 0 && sub_state && cur_[0] == sub_state) ref_stop(1);       // an active sub-machine is stopped with its owner (balanced exit at every level)
    if (cur_[m] != 0) log_r(T_EXIT, m, cur_[m], 0);
    cur_[m] = -1; run_[m] = false;
}
static bool ref_start(int m) {
    if (run_[m]) return false;
    run_[m] = true; cur_[m] = 1; log_r(T_ENTER, m, 1, 0);
    if (m == 0 && sub_state == 1) ref_start(1);
    return true;
}
static bool ref_run(int m, int ev) {
    if (!run_[m]) return false;
    int s = cur_[m];
    if (m == 0 && sub_state && s == sub_state) {
        bool ret = ref_run(1, ev);
        if (!(run_[1] && cur_[1] == 0)) return ret;
        ref_stop(1);
    }
    if (s == 0) return false;                                              // terminal state has no routes
    int next = -1, ri_taken = -1;
    if (has_handler[m][s]) { log_r(T_HANDLER, m, s, 0); next = hres[h_ref++ % 12]; }
    if (next == -1) {
        for (int ri = 0; ri < NRT && ri_taken < 0; ri++) {
            const RouteDef &r = R[m][s][ri];
            if (r.ev != 0 && r.ev != ev) continue;
            if (r.guard) { log_r(T_GUARD, m, s, ri); if (!gres[g_ref++ % 24]) continue; }
            ri_taken = ri;
        }
        if (ri_taken < 0) return false;
        next = R[m][s][ri_taken].to;
    }
    if (next > NS) return false;                                           // an undeclared target: the event is rejected, nothing changes (and later calls work as usual)
    log_r(T_EXIT, m, s, 0);
    if (ri_taken >= 0) log_r(T_ACT, m, s, ri_taken);
    cur_[m] = next;
    if (next != 0) log_r(T_ENTER, m, next, 0);
    log_r(T_CHANGED, m, s, next);
    if (m == 0 && sub_state && next == sub_state) { ref_start(1); ref_run(1, ev); }
    return true;
}
// ---------------- build the real machines ----------------
static void build(int m) {
    StateMachine *sm = SM[m];
    for (int s = 1; s <= NS; s++)
        sm->newState(s, [m, s](Event) { log_i(T_ENTER, m, s, 0); reenter(m, 0); }, [m, s](Event) { log_i(T_EXIT, m, s, 0); reenter(m, 1); });
    for (int s = 1; s <= NS; s++) {
        for (int ri = 0; ri < NRT; ri++) {
            RouteDef &r = R[m][s][ri];
            // topology (targets, which routes are guarded) is fixed: guarded routes, a wildcard-capable slot and routes to the terminal state;
            // the EVENT of every route is symbolic (1, 2 or the any-event wildcard 0), so route matching order is explored for every labelling
            static const RouteDef FIXED[NS + 1][NRT] = {{{0, 0, false}, {0, 0, false}}, {{1, 2, true}, {0, 0, false}}, {{2, 1, false}, {1, 0, true}}};
            r = FIXED[s][ri];
            { unsigned e = nondet_uchar(); VP_ASSUME(e <= 2); r.ev = (int)e; }
            StateMachine::GuardFunc g; if (r.guard) g = [m, s, ri](Event) { log_i(T_GUARD, m, s, ri); return gres[g_impl++ % 24]; };
            VP_ASSERT(sm->addRoute(s, r.ev, r.to, g, [m, s, ri](Event) { log_i(T_ACT, m, s, ri); reenter(m, 2); }), "addRoute accepts a route between existing states");
        }
        has_handler[m][s] = (m == 0 && s == 2) ? nondet_bool() : false;      // optional per-state event handler on one state
        if (has_handler[m][s]) sm->addEvent(s, 0, [m, s](Event) { log_i(T_HANDLER, m, s, 0); return hres[h_impl++ % 12]; });
    }
    sm->setStateChangedCallback([m](StateMachine::StateID f, StateMachine::StateID t, Event) { log_i(T_CHANGED, m, f, t); });
}
extern "C" void h_sm() {
    n_impl = n_ref = g_impl = g_ref = h_impl = h_ref = 0; reent_fired = false;
    for (int i = 0; i < 24; i++) gres[i] = nondet_bool();
    for (int i = 0; i < 12; i++) { unsigned v = nondet_uchar(); VP_ASSUME(v <= NS + 2); hres[i] = (int)v - 1; }     // -1 = "no decision", else target 0..NS, or NS+1 = a state id that was never declared
    StateMachine top, sub; SM[0] = &top; SM[1] = &sub;
    build(0); build(1);
    sub_state = SUBST;                                      // which top state owns the sub-machine (one solver run per position; 0 = none)
    if (sub_state) VP_ASSERT(top.setSubStateMachine(sub_state, &sub), "setSubStateMachine");
    reent_slot = RSLOT;                                     // which kind of action makes the re-entrant call (0 enter, 1 exit, 2 transition, 3 none)
    unsigned rk = nondet_uchar(); VP_ASSUME(rk <= 2); reent_kind = (int)rk;
    run_[0] = run_[1] = false; cur_[0] = cur_[1] = -1;
    for (int k = 0; k < NSTEP + 1; k++) {
        unsigned op = 0;                                        // the first call is start(); the following NSTEP calls are symbolic
        if (k > 0) { op = nondet_uchar(); VP_ASSUME(op <= 4); }
        bool ri, rr;
        switch (op) {
        case 0: ri = top.start(); rr = ref_start(0); break;
        case 1: ri = top.run(Event(1)); rr = ref_run(0, 1); break;
        case 2: ri = top.run(Event(2)); rr = ref_run(0, 2); break;
        case 3: top.stop(); ref_stop(0); ri = rr = true; break;
        default: ri = top.restart(); ref_stop(0); rr = ref_start(0); break;
        }
        VP_ASSERT(ri == rr, "return value equals the reference semantics");
        VP_ASSERT(top.isRunning() == run_[0] && top.currentState() == cur_[0], "reported running flag / current state equal the reference");
        if (sub_state) VP_ASSERT(sub.isRunning() == run_[1] && sub.currentState() == cur_[1], "sub-machine state equals the reference (events go to the active sub-machine until it has terminated)");
    }
    top.stop(); ref_stop(0);
    VP_ASSERT(!sub.isRunning(), "stopping a machine stops its active sub-machine");
    VP_ASSERT(n_impl == n_ref, "trace length equals the reference trace");
    for (int i = 0; i < n_impl && i < 96; i++)
        VP_ASSERT(tr_impl[i][0] == tr_ref[i][0] && tr_impl[i][1] == tr_ref[i][1] && tr_impl[i][2] == tr_ref[i][2] && tr_impl[i][3] == tr_ref[i][3],
                  "trace of guard evaluations / exit / transition / enter actions / state-changed notifications equals the reference trace");
    // balance at every level
    for (int m = 0; m < NM; m++) for (int s = 1; s <= NS; s++) {
        int en = 0, ex = 0;
        for (int i = 0; i < n_impl && i < 96; i++) if (tr_impl[i][1] == m && tr_impl[i][2] == s) { if (tr_impl[i][0] == T_ENTER) en++; if (tr_impl[i][0] == T_EXIT) ex++; }
        VP_ASSERT(en == ex, "every state entered has been exited exactly once by the time the machine is stopped");
    }
    VP_REACH("sm");
}
