// C14 (length-prefixed framing + timeout monitor), engine B.
#include "vp.h"
#define TRACE_MODULE_ID "vp"
#define VP_STUB_CATCHTHROW
#include "vp_stubs.hpp"
#include "vp_fakes.hpp"
#include <tbox/base/json.hpp>
#include "jsonrpc/proto.cpp"
#include "jsonrpc/protos/header_stream_proto.cpp"
#include "jsonrpc/protos/raw_stream_proto.cpp"
#include "util/json.cpp"
#include "util/serializer.cpp"
#include <tbox/eventx/timeout_monitor.hpp>
using namespace tbox;
static int g_msgs;
struct Probe : jsonrpc::HeaderStreamProto { using HeaderStreamProto::HeaderStreamProto; };
// header bytes fully symbolic (magic, 32-bit length incl. extreme values), short buffer: result by return value, never an exception
extern "C" void h_header_any() {
    jsonrpc::HeaderStreamProto p(0xCAFE);
    g_msgs = 0;
    p.setRecvCallback([](int, const std::string &, const Json &) { g_msgs++; }, [](int, int, const Json &) { g_msgs++; });
    unsigned char buf[12];
    for (int i = 0; i < 6; i++) buf[i] = nondet_uchar();
    static const char body[] = "{\"a\":1}";                         // bytes after the header: not a JSON-RPC message (so no callback), but valid JSON
    for (int i = 0; i < 6; i++) buf[6 + i] = body[i];
    size_t n = nondet_ulong(); VP_ASSUME(n <= 12);
    ssize_t r = p.onRecvData(buf, n);                                  // an escaping exception is reported by the engine
    VP_ASSERT(r <= (ssize_t)n, "never consumes more than it was given");
    if (n >= 6 && !(buf[0] == 0xCA && buf[1] == 0xFE)) VP_ASSERT(r < 0, "a wrong header code is reported as an error by return value");
    VP_REACH("header_any");
}
// raw (bracket-matching) framing: arbitrary short texts over the structural alphabet - including brackets that do not pair - are answered by
// return value (0 incomplete, -1 malformed, >0 consumed), never by an exception
#ifndef RN
#define RN 3
#endif
extern "C" void h_raw_any() {
    jsonrpc::RawStreamProto p;
    g_msgs = 0;
    p.setRecvCallback([](int, const std::string &, const Json &) { g_msgs++; }, [](int, int, const Json &) { g_msgs++; });
    static const char ALPH[8] = {'{', '}', '[', ']', '"', '1', ',', ' '};
    char buf[RN + 1];
    for (int i = 0; i < RN; i++) { unsigned k = nondet_uchar(); VP_ASSUME(k < 8); buf[i] = ALPH[k]; }
    buf[RN] = 0;
    size_t n = nondet_ulong(); VP_ASSUME(n <= RN);
    ssize_t r = p.onRecvData(buf, n);                                  // an escaping exception (e.g. std::length_error) is reported by the engine
    VP_ASSERT(r >= -1 && r <= (ssize_t)n, "raw framing answers by return value: -1 malformed, 0 need more, otherwise the bytes consumed (never more than given)");
    VP_ASSERT(g_msgs == 0, "text that is not a JSON-RPC message is not delivered as one");
    VP_REACH("raw_any");
}
// timeout monitor: every value added completes exactly once after the configured number of ticks, also when the callback adds new values
#define NT 3
static int fired[8]; static int added; static eventx::TimeoutMonitor<int> *g_mon; static unsigned g_retry_mask;
extern "C" void h_timeout_monitor() {
    vpf::FakeLoop loop;
    eventx::TimeoutMonitor<int> mon(&loop); g_mon = &mon;
    vpf::FakeTimer *t = loop.timers[0];
    unsigned times = nondet_uchar(); VP_ASSUME(times >= 1 && times <= 3);
    VP_ASSERT(mon.initialize(std::chrono::milliseconds(100), (int)times), "initialize");
    for (int i = 0; i < 8; i++) fired[i] = 0; added = 0;
    g_retry_mask = nondet_uchar();
    mon.setCallback([](const int &v) { fired[v]++; if (((g_retry_mask >> v) & 1) && added < 6) g_mon->add(added++); });     // retry from inside the timeout callback
    int deadline[8];
    int tick = 0;
    for (int step = 0; step < 5; step++) {
        bool do_add = nondet_bool();
        if (do_add && added < 6) { deadline[added] = -1; mon.add(added++); }
        else if (t->on) { tick++; int before = added; t->fire(); (void)before; }
        bool any_pending = false; for (int v = 0; v < added; v++) if (!fired[v]) any_pending = true;
        VP_ASSERT(t->on == any_pending, "the tick timer runs exactly while some value is still waiting for its deadline (otherwise that value would never complete)");
    }
    for (int k = 0; k < 40 && t->on; k++) t->fire();                  // let time pass (<= 6 values x <= 3 ticks each, chained retries)
    for (int v = 0; v < added; v++) VP_ASSERT(fired[v] == 1, "every monitored value times out exactly once");
    VP_REACH("timeout_monitor");
}
