// C14 (framing): raw-stream framing is prefix stable (== segmentation independent) and memory safe on arbitrary bytes;
// the length-prefixed framing is total on arbitrary headers; the timeout monitor completes every entry exactly once.
#include "vp.h"
#include <tbox/base/json.hpp>
#include "util/json.cpp"
#ifndef NB
#define NB 6
#endif
// prefix stability of util::json::FindEndPos: the result for a buffer determines the result for every prefix of it. This is exactly
// "any segmentation of the stream is framed like the unsegmented stream" for the raw framing, which rescans the buffer on every arrival.
extern "C" void h_findend_prefix() {
    char buf[NB + 1]; for (int i = 0; i < NB; i++) buf[i] = (char)nondet_uchar(); buf[NB] = 0;
    size_t n = nondet_ulong(); VP_ASSUME(n <= NB);
    size_t m = nondet_ulong(); VP_ASSUME(m <= n);
    int r = tbox::util::json::FindEndPos(buf, n);
    int rm = tbox::util::json::FindEndPos(buf, m);
    VP_ASSERT(r >= -1 && r <= (int)n, "result is -1, 0 or a length inside the buffer");
    if (r > 0) VP_ASSERT(rm == (m >= (size_t)r ? r : 0), "a complete value ends at the same offset in every longer prefix, and is not reported by any shorter one");
    if (r == 0) VP_ASSERT(rm == 0, "an incomplete buffer has no complete prefix");
    if (r == -1) VP_ASSERT(rm == 0 || rm == -1, "a malformed buffer never yields a value from a prefix");
    if (rm == -1) VP_ASSERT(r == -1, "malformed stays malformed when more bytes arrive");
    VP_REACH("findend_prefix");
}
// the framing respects JSON string syntax: braces / brackets / escaped quotes inside strings do not end the value
extern "C" void h_findend_string() {
    // {"<s0><s1><s2>"} with arbitrary string bytes except raw '"' and '\\' (those only as escape pairs, chosen symbolically)
    char buf[16]; size_t n = 0; buf[n++] = '{'; buf[n++] = '"';
    for (int i = 0; i < 3; i++) {
        unsigned kind = nondet_uchar(); VP_ASSUME(kind <= 2);
        if (kind == 0) { char c = (char)nondet_uchar(); VP_ASSUME(c != '"' && c != '\\'); buf[n++] = c; }
        else if (kind == 1) { buf[n++] = '\\'; buf[n++] = '"'; }
        else { buf[n++] = '\\'; buf[n++] = '\\'; }
    }
    buf[n++] = '"'; buf[n++] = '}';
    VP_ASSERT(tbox::util::json::FindEndPos(buf, n) == (int)n, "an object whose only member is a string (with braces, escaped quotes, backslashes inside) ends at its closing brace");
    size_t m = nondet_ulong(); VP_ASSUME(m < n);
    VP_ASSERT(tbox::util::json::FindEndPos(buf, m) == 0, "no proper prefix of it is reported as complete");
    VP_REACH("findend_string");
}
