// C03: fd events fire only when enabled and ready; mutation inside callbacks is safe; epoll and select agree.
// The REAL back ends (EpollLoop + EpollFdEvent, SelectLoop + SelectFdEvent, CommonLoop, ObjectPool) run one loop pass
// (runLoop(kOnce)) on the harness-level kernel seam.
#include "vp.h"
#define TRACE_MODULE_ID "vp"
#include "vp_stubs.hpp"
#include "vp_kernel.hpp"
#include <chrono>
static unsigned long g_now_ms = 1000;
namespace std { namespace chrono { inline namespace _V2 {
steady_clock::time_point steady_clock::now() noexcept { return time_point(duration(std::chrono::milliseconds(g_now_ms))); }
} } }
#include "event/common_loop.cpp"
#include "event/common_loop_timer.cpp"
#include "event/common_loop_run.cpp"
#include "event/common_loop_signal.cpp"
#include "event/timer_event_impl.cpp"
#include "event/signal_event_impl.cpp"
#include "event/misc.cpp"
#include "event/stat.cpp"
#include "event/engines/epoll/loop.cpp"
#include "event/engines/epoll/fd_event.cpp"
#include "event/engines/select/loop.cpp"
#include "event/engines/select/fd_event.cpp"
using namespace tbox; using namespace tbox::event;
#define NE 3
static const int FDS[NE] = {10, 10, 11};                 // events 0 and 1 share descriptor 10
struct Scen { unsigned mask[NE]; bool oneshot[NE]; unsigned char act[NE], tgt[NE]; unsigned rdy10, rdy11; };
struct Run { FdEvent *ev[NE]; bool alive[NE], en[NE]; int calls[NE]; unsigned got[NE]; const Scen *sc; };
static Run *R;
static void do_act(int i) {
    int j = R->sc->tgt[i];
    switch (R->sc->act[i]) {
    case 1: if (R->alive[i]) { R->ev[i]->disable(); R->en[i] = false; } break;            // disable the running event itself
    case 2: if (R->alive[j]) { R->ev[j]->disable(); R->en[j] = false; } break;            // disable another event
    case 3: if (R->alive[j]) { R->ev[j]->enable(); R->en[j] = true; } break;              // enable another event
    case 4: if (R->alive[j] && j != i) { delete R->ev[j]; R->ev[j] = nullptr; R->alive[j] = false; R->en[j] = false; } break;   // destroy another event
    default: break;
    }
}
static void on_event(int i, short events) {
    VP_ASSERT(R->alive[i], "a destroyed event never gets a callback");
    VP_ASSERT(R->en[i], "a disabled event never gets a callback (also when it was disabled earlier in the same pass)");
    if (R->sc->oneshot[i]) { VP_ASSERT(!R->ev[i]->isEnabled(), "a one-shot event is already disabled when its callback runs"); R->en[i] = false; }
    VP_ASSERT((events & R->sc->mask[i]) != 0, "the callback reports at least one subscribed condition");
    unsigned rdy = FDS[i] == 10 ? R->sc->rdy10 : R->sc->rdy11;
    VP_ASSERT((((events & FdEvent::kReadEvent) ? 1u : 0u) | ((events & FdEvent::kWriteEvent) ? 2u : 0u)) & rdy, "the descriptor really is ready for a reported condition");
    R->calls[i]++; R->got[i] |= (unsigned)events;
    do_act(i);
}
template <class LOOP> static void run_backend(const Scen &sc, Run &r) {
    vk::reset(); R = &r; r.sc = &sc;
    LOOP loop;
    for (int i = 0; i < NE; i++) {
        r.ev[i] = loop.newFdEvent("e"); r.alive[i] = true; r.calls[i] = 0; r.got[i] = 0;
        short m = (short)(((sc.mask[i] & 1) ? FdEvent::kReadEvent : 0) | ((sc.mask[i] & 2) ? FdEvent::kWriteEvent : 0));
        VP_ASSERT(r.ev[i]->initialize(FDS[i], m, sc.oneshot[i] ? Event::Mode::kOneshot : Event::Mode::kPersist), "initialize");
        r.ev[i]->setCallback([i](short e) { on_event(i, e); });
        r.ev[i]->enable(); r.en[i] = true;
    }
    vk::ready[10] = sc.rdy10; vk::ready[11] = sc.rdy11;
    loop.runLoop(Loop::Mode::kOnce);                       // one pass of the real loop
    for (int i = 0; i < NE; i++) if (r.alive[i]) { delete r.ev[i]; r.ev[i] = nullptr; }
    loop.cleanup();
}
static void mk_scen(Scen &sc) {
    for (int i = 0; i < NE; i++) { sc.mask[i] = 1; sc.oneshot[i] = false; sc.act[i] = 0; sc.tgt[i] = 0; }
    // events 0 and 1 (sharing descriptor 10) subscribe to any non-empty subset of {read, write}; event 2 (descriptor 11) reads
    sc.mask[0] = nondet_uchar(); VP_ASSUME(sc.mask[0] >= 1 && sc.mask[0] <= 3);
    sc.mask[1] = nondet_uchar(); VP_ASSUME(sc.mask[1] >= 1 && sc.mask[1] <= 3);
    sc.oneshot[0] = nondet_bool();
#ifdef ACTOR
    { unsigned a = nondet_uchar(); VP_ASSUME(a <= 4); sc.act[ACTOR] = (unsigned char)a;        // one event's callback mutates events (one solver run per acting event)
      unsigned t = nondet_uchar(); VP_ASSUME(t < NE); sc.tgt[ACTOR] = (unsigned char)t; }
#else
    sc.oneshot[1] = nondet_bool(); sc.oneshot[2] = nondet_bool();
#endif
    sc.rdy10 = nondet_uchar(); VP_ASSUME(sc.rdy10 <= 3); sc.rdy11 = nondet_bool() ? 1 : 0;
}
extern "C" void h_epoll() { Scen sc; mk_scen(sc); Run r; run_backend<EpollLoop>(sc, r);
    for (int i = 0; i < NE; i++) { unsigned rdy = FDS[i] == 10 ? sc.rdy10 : sc.rdy11; if (sc.act[0] == 0 && sc.act[1] == 0 && sc.act[2] == 0) VP_ASSERT(r.calls[i] == ((sc.mask[i] & rdy) ? 1 : 0), "without mutation every enabled event whose descriptor is ready for a subscribed condition is called exactly once per pass"); }
    VP_REACH("epoll"); }
extern "C" void h_select() { Scen sc; mk_scen(sc); Run r; run_backend<SelectLoop>(sc, r);
    for (int i = 0; i < NE; i++) { unsigned rdy = FDS[i] == 10 ? sc.rdy10 : sc.rdy11; if (sc.act[0] == 0 && sc.act[1] == 0 && sc.act[2] == 0) VP_ASSERT(r.calls[i] == ((sc.mask[i] & rdy) ? 1 : 0), "without mutation every enabled event whose descriptor is ready for a subscribed condition is called exactly once per pass"); }
    VP_REACH("select"); }
// back-end agreement: the same scenario on both back ends; when the outcome cannot depend on the order in which ready descriptors are
// served (only one descriptor ready, or no mutation), both deliver the same callbacks with the same condition sets
extern "C" void h_agree() {
    Scen sc; mk_scen(sc); Run re, rs;
    run_backend<EpollLoop>(sc, re); run_backend<SelectLoop>(sc, rs);
    bool order_free = (sc.rdy10 == 0 || sc.rdy11 == 0) || (sc.act[0] == 0 && sc.act[1] == 0 && sc.act[2] == 0);
    if (order_free) for (int i = 0; i < NE; i++) VP_ASSERT(re.calls[i] == rs.calls[i] && re.got[i] == rs.got[i], "epoll and select deliver the same callbacks for order-independent scenarios");
    VP_REACH("agree");
}

// ---- several passes inside ONE runLoop(kForever) call: readiness of three descriptors (one of them descriptor 0) symbolic per pass.
// The epoll receive array starts with room for 2 entries (max_loop_entries_ set directly), so the "array was full -> grow" step and the
// pass after it are covered with 3 descriptors instead of 256+.
#ifndef MPASS
#define MPASS 2
#endif
static const int MFDS[3] = {0, 10, 11};
struct MRun { Loop *loop; int pass; unsigned rdy[MPASS][3]; int calls[MPASS][3]; };
static MRun *MR;
static void m_on_wait() {
    MR->pass++;
    for (int i = 0; i < 3; i++) vk::ready[MFDS[i]] = (MR->pass < MPASS) ? MR->rdy[MR->pass][i] : 0;
    if (MR->pass >= MPASS) MR->loop->exitLoop(std::chrono::milliseconds(0));            // the pass after the last scripted one finds nothing ready and ends the loop
}
static void m_shrink(EpollLoop &l) { l.max_loop_entries_ = 2; }
static void m_shrink(SelectLoop &) {}
template <class LOOP> static void run_multi(bool small_array) {
    vk::reset(); MRun r; MR = &r; r.pass = -1;
    for (int p = 0; p < MPASS; p++) for (int i = 0; i < 3; i++) { r.rdy[p][i] = nondet_bool() ? 1u : 0u; r.calls[p][i] = 0; }
    {
        LOOP loop; r.loop = &loop;
        if (small_array) m_shrink(loop);
        FdEvent *ev[3];
        for (int i = 0; i < 3; i++) {
            ev[i] = loop.newFdEvent("m");
            VP_ASSERT(ev[i]->initialize(MFDS[i], FdEvent::kReadEvent, Event::Mode::kPersist), "initialize");
            ev[i]->setCallback([i](short e) {
                VP_ASSERT(MR->pass >= 0 && MR->pass < MPASS, "no callback in a pass in which nothing is ready");
                VP_ASSERT((e & FdEvent::kReadEvent) && MR->rdy[MR->pass][i], "callback only when the descriptor is ready for the subscribed condition");
                MR->calls[MR->pass][i]++;
            });
            ev[i]->enable();
        }
        vk::on_wait = m_on_wait;
        loop.runLoop(Loop::Mode::kForever);                                              // an exception leaving runLoop() is a violation (reported by the engine)
        vk::on_wait = nullptr;
        for (int i = 0; i < 3; i++) delete ev[i];
        loop.cleanup();
    }
    int cap = small_array ? 2 : 256;
    for (int p = 0; p < MPASS; p++) {
        int nready = 0; for (int i = 0; i < 3; i++) nready += r.rdy[p][i];
        for (int i = 0; i < 3; i++) {
            VP_ASSERT(r.calls[p][i] <= (int)r.rdy[p][i], "at most one callback per ready event and pass");
            if (nready <= cap) VP_ASSERT(r.calls[p][i] == (int)r.rdy[p][i], "a persistent enabled event is called in every pass in which its descriptor is ready (earlier passes must not have unregistered it)");
        }
        if (nready >= cap) cap += cap / 2;                                              // documented growth of the epoll receive array after a full pass
    }
}
extern "C" void h_multi_epoll() { run_multi<EpollLoop>(true); VP_REACH("multi_epoll"); }
extern "C" void h_multi_select() { run_multi<SelectLoop>(false); VP_REACH("multi_select"); }
