// C04: signal events reach every enabled subscriber exactly once per delivery, in every loop; a handler installed before the first
// subscription is still invoked; when the last subscriber goes away the previous disposition is restored. Real
// event/common_loop_signal.cpp + SignalEventImpl on the sequential CommonLoop double; sigaction / pipes / raise are harness-level seams
// (raise() runs the installed handler synchronously, as the kernel does for the raising thread).
#include "vp.h"
#define TRACE_MODULE_ID "vp"
#include "vp_stubs.hpp"
#include "vp_fakes.hpp"
#include <signal.h>
#include <unistd.h>
#include <fcntl.h>
#include <errno.h>
#include <string.h>
// ---- kernel seam -----------------------------------------------------------------------------------------------
#define NSIG_ 4
static struct sigaction g_disp[NSIG_];            // the process's disposition per signal number 0..3
static int g_pipe_buf[4][16]; static int g_pipe_len[4]; static bool g_pipe_open[4]; static int g_npipes;
extern "C" {
int sigemptyset(sigset_t *s) { memset(s, 0, sizeof(*s)); return 0; }
int sigfillset(sigset_t *s) { memset(s, 0xff, sizeof(*s)); return 0; }
int sigprocmask(int, const sigset_t *, sigset_t *o) { if (o) memset(o, 0, sizeof(*o)); return 0; }
int sigaction(int signo, const struct sigaction *act, struct sigaction *old) {
    if (signo < 0 || signo >= NSIG_) { errno = EINVAL; return -1; }
    if (old) *old = g_disp[signo];
    if (act) g_disp[signo] = *act;
    return 0;
}
int pipe2(int fds[2], int) { int k = g_npipes++; g_pipe_len[k] = 0; g_pipe_open[k] = true; fds[0] = 20 + 2 * k; fds[1] = 21 + 2 * k; return 0; }
ssize_t write(int fd, const void *p, size_t n) { int k = (fd - 20) / 2; if (fd < 20 || k >= 4 || !g_pipe_open[k] || n != 4) { errno = EBADF; return -1; } if (g_pipe_len[k] < 16) g_pipe_buf[k][g_pipe_len[k]++] = *static_cast<const int *>(p); return 4; }
ssize_t read(int fd, void *p, size_t n) { int k = (fd - 20) / 2; if (fd < 20 || k >= 4 || !g_pipe_open[k]) { errno = EBADF; return -1; } if (g_pipe_len[k] == 0) { errno = EAGAIN; return -1; }
    int cnt = g_pipe_len[k]; if ((size_t)cnt * 4 > n) cnt = (int)(n / 4); int *o = static_cast<int *>(p); for (int i = 0; i < cnt; i++) o[i] = g_pipe_buf[k][i];
    for (int i = cnt; i < g_pipe_len[k]; i++) g_pipe_buf[k][i - cnt] = g_pipe_buf[k][i]; g_pipe_len[k] -= cnt; return cnt * 4; }
int close(int fd) { int k = (fd - 20) / 2; if (fd >= 20 && k < 4 && (fd & 1) == 0) g_pipe_open[k] = false; return 0; }
}
static void deliver(int signo) {                 // what the kernel does on raise(signo) for the calling thread
    struct sigaction &d = g_disp[signo];
    if (d.sa_flags & SA_SIGINFO) { if (d.sa_sigaction) d.sa_sigaction(signo, nullptr, nullptr); }
    else if (d.sa_handler != SIG_DFL && d.sa_handler != SIG_IGN && d.sa_handler != SIG_ERR) d.sa_handler(signo);
}
#include <chrono>
static unsigned long g_now_ms = 1000;
namespace std { namespace chrono { inline namespace _V2 {
steady_clock::time_point steady_clock::now() noexcept { return time_point(duration(std::chrono::milliseconds(g_now_ms))); }
} } }
#include "event/common_loop.cpp"
#include "event/common_loop_timer.cpp"
#include "event/common_loop_run.cpp"
#include "event/common_loop_signal.cpp"
#include "event/timer_event_impl.cpp"
#include "event/signal_event_impl.cpp"
#include "event/misc.cpp"
#include "event/stat.cpp"
using namespace tbox; using namespace tbox::event;
struct SigLoop : CommonLoop {                    // the real CommonLoop; fd events are fakes the harness fires when the signal pipe has data
    std::vector<vpf::FakeFdEvent*> fdevs;
    void runLoop(Mode) override {}
    void stopLoop() override {}
    FdEvent *newFdEvent(const std::string &) override { vpf::FakeFdEvent *e = new vpf::FakeFdEvent; fdevs.push_back(e); return e; }
    // the loop's CURRENT signal pipe event (the loop deletes it when the last subscription goes away and creates a new one later)
    void dispatch() { vpf::FakeFdEvent *e = static_cast<vpf::FakeFdEvent*>(sp_signal_read_event_);
        if (e != nullptr) { int k = (e->fd - 20) / 2; if (e->on && e->fd >= 20 && k < 4 && g_pipe_open[k] && g_pipe_len[k] > 0) e->fire(FdEvent::kReadEvent); }
        handleNextFunc(); }
};
#define NEV 3
#ifndef NSTEP
#define NSTEP 3
#endif
static int calls[NEV]; static int old_calls[NSIG_];
static void old_handler(int s) { old_calls[s]++; }
extern "C" void h_signals() {
    g_npipes = 0; for (int i = 0; i < NSIG_; i++) { memset(&g_disp[i], 0, sizeof(g_disp[i])); old_calls[i] = 0; }
    // a handler installed BEFORE the first subscription on signal 1 (plain handler, symbolic flags bit); signal 2 starts with the default disposition
    bool pre = nondet_bool();
    if (pre) { g_disp[1].sa_handler = old_handler; g_disp[1].sa_flags = SA_RESTART; }
    struct sigaction before[NSIG_]; for (int i = 0; i < NSIG_; i++) before[i] = g_disp[i];
    SigLoop loopA, loopB; SigLoop *L[2] = {&loopA, &loopB};
    SignalEvent *ev[NEV]; bool alive[NEV], en[NEV], oneshot[NEV]; unsigned sset[NEV]; int lp[NEV];
    for (int i = 0; i < NEV; i++) {
        lp[i] = (i == 2) ? 1 : 0;                                   // events 0,1 on loop A, event 2 on loop B
        unsigned m = 1; if (i == 0) { m = nondet_uchar(); VP_ASSUME(m >= 1 && m <= 3); } sset[i] = m;   // event 0 subscribes to {1}, {2} or {1,2}; events 1 and 2 to {1}
        oneshot[i] = (i == 0) ? nondet_bool() : false; calls[i] = 0;
        ev[i] = L[lp[i]]->newSignalEvent("s"); alive[i] = true; en[i] = false;
        std::set<int> ss; if (m & 1) ss.insert(1); if (m & 2) ss.insert(2);
        VP_ASSERT(ev[i]->initialize(ss, oneshot[i] ? Event::Mode::kOneshot : Event::Mode::kPersist), "initialize");
        ev[i]->setCallback([i](int) { calls[i]++; });
    }
    for (int step = 0; step < NSTEP; step++) {
        // one of 7 actions: enable 0/1/2, disable 0, destroy 1, deliver S1, deliver S2
        static const unsigned char OPS[7][2] = {{0, 0}, {0, 1}, {0, 2}, {1, 0}, {2, 1}, {3, 0}, {3, 1}};
        unsigned a = nondet_uchar(); VP_ASSUME(a < 7); a = (unsigned)vp_concretize(a);
        unsigned op = OPS[a][0], w = OPS[a][1];
        if (op == 0) { if (alive[w]) { VP_ASSERT(ev[w]->enable(), "enable"); en[w] = true; } }
        else if (op == 1) { if (alive[w]) { ev[w]->disable(); en[w] = false; } }
        else if (op == 2) { if (alive[w]) { delete ev[w]; ev[w] = nullptr; alive[w] = false; en[w] = false; } }
        else {
            int signo = 1 + (int)(w & 1);                                    // one delivery of signal 1 or 2, while no subscription change is in progress
            int exp[NEV], oc = old_calls[signo]; bool any = false;
            for (int i = 0; i < NEV; i++) { exp[i] = calls[i] + ((alive[i] && en[i] && (sset[i] & (unsigned)signo)) ? 1 : 0); if (alive[i] && en[i] && (sset[i] & (unsigned)signo)) any = true; }
            deliver(signo);
            loopA.dispatch(); loopB.dispatch();
            for (int i = 0; i < NEV; i++) { VP_ASSERT(calls[i] == exp[i], "each delivery gives exactly one callback to every enabled event subscribed to the signal, in every loop, and none to the others");
                if (alive[i] && oneshot[i] && calls[i] > 0 && exp[i] != calls[i] - 0) {} }
            for (int i = 0; i < NEV; i++) if (alive[i] && en[i] && oneshot[i] && (sset[i] & (unsigned)signo)) { en[i] = false; VP_ASSERT(!ev[i]->isEnabled(), "a one-shot signal event is disabled after it fired"); }
            if (any && pre && signo == 1) VP_ASSERT(old_calls[1] == oc + 1, "a handler installed before the first subscription is still invoked on every delivery");
        }
        // disposition: restored exactly when no enabled subscriber is left for a signal
        for (int s = 1; s <= 2; s++) {
            bool sub = false; for (int i = 0; i < NEV; i++) if (alive[i] && en[i] && (sset[i] & (unsigned)s)) sub = true;
            if (!sub) VP_ASSERT(g_disp[s].sa_handler == before[s].sa_handler && g_disp[s].sa_flags == before[s].sa_flags && g_disp[s].sa_sigaction == before[s].sa_sigaction,
                                "with no subscriber left the process's disposition is exactly what it was before the first subscription");
        }
    }
    for (int i = 0; i < NEV; i++) if (alive[i]) delete ev[i];
    loopA.dispatch(); loopB.dispatch();
    for (int s = 1; s <= 2; s++) VP_ASSERT(g_disp[s].sa_handler == before[s].sa_handler && g_disp[s].sa_flags == before[s].sa_flags, "all events destroyed: original dispositions restored");
    loopA.cleanup(); loopB.cleanup();
    VP_REACH("signals");
}
