// C04 on a real back end: the signal pipe of a loop is watched through the REAL EpollLoop / EpollFdEvent (or SelectLoop / SelectFdEvent);
// subscriptions that drop to zero and come back - in separate loop passes or inside one task of the same pass - still get their deliveries.
// Kernel seam with the semantics this depends on: descriptors are allocated lowest-free-first (a new pipe re-uses the numbers of the one just
// closed), closing a descriptor removes it from every epoll set, EPOLL_CTL_MOD/DEL on an unregistered descriptor fail with ENOENT and
// EPOLL_CTL_ADD on a registered one with EEXIST.
#include "vp.h"
#define TRACE_MODULE_ID "vp"
#include "vp_stubs.hpp"
#include <signal.h>
#include <unistd.h>
#include <fcntl.h>
#include <errno.h>
#include <string.h>
#include <sys/epoll.h>
#include <sys/select.h>
#include <sys/eventfd.h>
#define NFD_ 16
#define NSIG_ 4
enum Kind { K_FREE, K_EPOLL, K_EVENTFD, K_PIPE_R, K_PIPE_W };
static unsigned char k_kind[NFD_]; static int k_peer[NFD_]; static int k_buf[NFD_][16]; static int k_len[NFD_]; static unsigned long k_counter[NFD_];
static bool ep_reg[NFD_]; static unsigned ep_events[NFD_]; static void *ep_ptr[NFD_]; static int k_ctl_errors;
static struct sigaction g_disp[NSIG_];
static int k_alloc(unsigned char kind) { for (int fd = 3; fd < NFD_; fd++) if (k_kind[fd] == K_FREE) { k_kind[fd] = kind; k_len[fd] = 0; k_counter[fd] = 0; k_peer[fd] = -1; return fd; } errno = EMFILE; return -1; }
static bool k_readable(int fd) { if (k_kind[fd] == K_EVENTFD) return k_counter[fd] != 0; if (k_kind[fd] == K_PIPE_R) return k_len[fd] > 0; return false; }
extern "C" {
int sigemptyset(sigset_t *s) { memset(s, 0, sizeof(*s)); return 0; }
int sigfillset(sigset_t *s) { memset(s, 0xff, sizeof(*s)); return 0; }
int sigprocmask(int, const sigset_t *, sigset_t *o) { if (o) memset(o, 0, sizeof(*o)); return 0; }
int sigaction(int signo, const struct sigaction *act, struct sigaction *old) {
    if (signo < 0 || signo >= NSIG_) { errno = EINVAL; return -1; }
    if (old) *old = g_disp[signo];
    if (act) g_disp[signo] = *act;
    return 0;
}
int fcntl(int, int, ...) { return 0; }
int pipe2(int fds[2], int) { int r = k_alloc(K_PIPE_R); if (r < 0) return -1; int w = k_alloc(K_PIPE_W); if (w < 0) { k_kind[r] = K_FREE; return -1; } k_peer[r] = w; k_peer[w] = r; fds[0] = r; fds[1] = w; return 0; }
int eventfd(unsigned int init, int) { int fd = k_alloc(K_EVENTFD); if (fd >= 0) k_counter[fd] = init; return fd; }
int epoll_create1(int) { return k_alloc(K_EPOLL); }
int epoll_ctl(int, int op, int fd, struct epoll_event *ev) {
    if (fd < 0 || fd >= NFD_ || k_kind[fd] == K_FREE) { errno = EBADF; k_ctl_errors++; return -1; }
    if (op == EPOLL_CTL_ADD) { if (ep_reg[fd]) { errno = EEXIST; k_ctl_errors++; return -1; } ep_reg[fd] = true; ep_events[fd] = ev->events; ep_ptr[fd] = ev->data.ptr; return 0; }
    if (!ep_reg[fd]) { errno = ENOENT; k_ctl_errors++; return -1; }
    if (op == EPOLL_CTL_DEL) { ep_reg[fd] = false; return 0; }
    ep_events[fd] = ev->events; ep_ptr[fd] = ev->data.ptr; return 0;
}
int epoll_wait(int, struct epoll_event *evs, int maxevents, int) {
    int n = 0;
    for (int fd = 0; fd < NFD_ && n < maxevents; fd++) if (ep_reg[fd] && (ep_events[fd] & EPOLLIN) && k_readable(fd)) { evs[n].events = EPOLLIN; evs[n].data.ptr = ep_ptr[fd]; n++; }
    return n;
}
int select(int nfds, fd_set *r, fd_set *w, fd_set *e, struct timeval *) {
    int n = 0;
    for (int fd = 0; fd < nfds && fd < NFD_; fd++) {
        if (r && FD_ISSET(fd, r)) { if (k_kind[fd] == K_FREE) { errno = EBADF; return -1; } if (k_readable(fd)) n++; else FD_CLR(fd, r); }
        if (w && FD_ISSET(fd, w)) FD_CLR(fd, w);
        if (e && FD_ISSET(fd, e)) FD_CLR(fd, e);
    }
    return n;
}
ssize_t write(int fd, const void *p, size_t n) {
    if (fd < 0 || fd >= NFD_) { errno = EBADF; return -1; }
    if (k_kind[fd] == K_EVENTFD && n == 8) { k_counter[fd] += *static_cast<const unsigned long *>(p); return 8; }
    if (k_kind[fd] == K_PIPE_W && n == 4) { int r = k_peer[fd]; if (r < 0 || k_kind[r] != K_PIPE_R) { errno = EPIPE; return -1; } if (k_len[r] < 16) k_buf[r][k_len[r]++] = *static_cast<const int *>(p); return 4; }
    errno = EBADF; return -1;
}
ssize_t read(int fd, void *p, size_t n) {
    if (fd < 0 || fd >= NFD_) { errno = EBADF; return -1; }
    if (k_kind[fd] == K_EVENTFD && n == 8) { if (!k_counter[fd]) { errno = EAGAIN; return -1; } *static_cast<unsigned long *>(p) = k_counter[fd]; k_counter[fd] = 0; return 8; }
    if (k_kind[fd] == K_PIPE_R) { if (k_len[fd] == 0) { errno = EAGAIN; return -1; }
        int cnt = k_len[fd]; if ((size_t)cnt * 4 > n) cnt = (int)(n / 4); int *o = static_cast<int *>(p); for (int i = 0; i < cnt; i++) o[i] = k_buf[fd][i];
        for (int i = cnt; i < k_len[fd]; i++) k_buf[fd][i - cnt] = k_buf[fd][i]; k_len[fd] -= cnt; return cnt * 4; }
    errno = EBADF; return -1;
}
int close(int fd) { if (fd < 0 || fd >= NFD_ || k_kind[fd] == K_FREE) { errno = EBADF; return -1; } k_kind[fd] = K_FREE; ep_reg[fd] = false; if (k_peer[fd] >= 0) k_peer[k_peer[fd]] = -1; return 0; }   // closing removes the descriptor from the epoll set
}
static void deliver(int signo) {
    struct sigaction &d = g_disp[signo];
    if (d.sa_flags & SA_SIGINFO) { if (d.sa_sigaction) d.sa_sigaction(signo, nullptr, nullptr); }
    else if (d.sa_handler != SIG_DFL && d.sa_handler != SIG_IGN && d.sa_handler != SIG_ERR) d.sa_handler(signo);
}
#include <chrono>
static unsigned long g_now_ms = 1000;
namespace std { namespace chrono { inline namespace _V2 {
steady_clock::time_point steady_clock::now() noexcept { return time_point(duration(std::chrono::milliseconds(g_now_ms))); }
} } }
#include "event/common_loop.cpp"
#include "event/common_loop_timer.cpp"
#include "event/common_loop_run.cpp"
#include "event/common_loop_signal.cpp"
#include "event/timer_event_impl.cpp"
#include "event/signal_event_impl.cpp"
#include "event/misc.cpp"
#include "event/stat.cpp"
#include "event/engines/epoll/loop.cpp"
#include "event/engines/epoll/fd_event.cpp"
#include "event/engines/select/loop.cpp"
#include "event/engines/select/fd_event.cpp"
using namespace tbox; using namespace tbox::event;
#ifndef BACKEND
#define BACKEND EpollLoop
#endif
#ifndef NSTEP
#define NSTEP 3
#endif
static int calls[2]; static SignalEvent *EV[2]; static bool en[2]; static bool rearm;
extern "C" void h_sig_backend() {
    for (int i = 0; i < NFD_; i++) { k_kind[i] = i < 3 ? K_EVENTFD : K_FREE; ep_reg[i] = false; } k_ctl_errors = 0;
    for (int i = 0; i < NSIG_; i++) memset(&g_disp[i], 0, sizeof(g_disp[i]));
    struct sigaction before = g_disp[1];
    {
        BACKEND loop;
        bool oneshot = nondet_bool(); rearm = oneshot && nondet_bool();          // a one-shot event may re-arm itself from inside its callback
        for (int i = 0; i < 2; i++) {
            EV[i] = loop.newSignalEvent("s"); calls[i] = 0; en[i] = false;
            VP_ASSERT(EV[i]->initialize(1, (i == 0 && oneshot) ? Event::Mode::kOneshot : Event::Mode::kPersist), "initialize");
        }
        EV[0]->setCallback([](int) { calls[0]++; if (rearm) { EV[0]->enable(); en[0] = true; } else if (!EV[0]->isEnabled()) en[0] = false; });
        EV[1]->setCallback([](int) { calls[1]++; });
        VP_ASSERT(EV[0]->enable(), "enable"); en[0] = true;
        for (int step = 0; step < NSTEP; step++) {
            unsigned op = nondet_uchar(); VP_ASSUME(op <= 4); op = (unsigned)vp_concretize(op);
            if (op == 0) {                                                        // one delivery, then loop passes until the loop is idle
                int exp0 = calls[0] + (en[0] ? 1 : 0), exp1 = calls[1] + (en[1] ? 1 : 0);
                bool was0 = en[0];
                deliver(1);
                if (was0 && oneshot && !rearm) en[0] = false;
                loop.runLoop(Loop::Mode::kOnce); loop.runLoop(Loop::Mode::kOnce);
                VP_ASSERT(calls[0] == exp0 && calls[1] == exp1, "each delivery gives exactly one callback to every enabled event subscribed to the signal (also after the loop's subscriptions dropped to zero and came back)");
            } else if (op == 1) { EV[0]->disable(); en[0] = false; }
            else if (op == 2) { VP_ASSERT(EV[0]->enable(), "enable"); en[0] = true; }
            else if (op == 3) {                                                   // disable + enable back to back inside one task of a loop pass
                loop.runNext([] { EV[0]->disable(); EV[0]->enable(); en[0] = true; }, "toggle");
                loop.runLoop(Loop::Mode::kOnce);
            } else { if (en[1]) { EV[1]->disable(); en[1] = false; } else { VP_ASSERT(EV[1]->enable(), "enable"); en[1] = true; } }
            VP_ASSERT(EV[0]->isEnabled() == en[0] && EV[1]->isEnabled() == en[1], "isEnabled() follows the history");
            if (!en[0] && !en[1]) VP_ASSERT(g_disp[1].sa_handler == before.sa_handler && g_disp[1].sa_flags == before.sa_flags, "with no subscriber left the disposition is what it was before");
        }
        delete EV[0]; delete EV[1];
        loop.runLoop(Loop::Mode::kOnce);
        VP_ASSERT(g_disp[1].sa_handler == before.sa_handler && g_disp[1].sa_flags == before.sa_flags, "all events destroyed: original disposition restored");
    }
    VP_REACH("sig_backend");
}
