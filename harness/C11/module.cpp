// C11: module tree lifecycle hooks are nested, ordered and balanced — real main::Module on probe subclasses (engine B).
#include "vp.h"
#include <tbox/base/json.hpp>
#include "main/module.cpp"
#include "util/variables.cpp"
using namespace tbox::main;
#ifndef NMOD
#define NMOD 3
#endif
#ifndef NCALLS
#define NCALLS 3
#endif
enum St { NONE, INITED, STARTED };
static int par[NMOD]; static bool req[NMOD]; static bool init_ok[NMOD], start_ok[NMOD];
static St st[NMOD];            // reference state per module, driven by the hook events
static int n_init_ok[NMOD], n_cleanup[NMOD], n_start_ok[NMOD], n_stop[NMOD];
static bool own_init_in_progress[NMOD], own_start_in_progress[NMOD];   // hook of w succeeded, its children are being visited
static int last_child_attempt[NMOD];                                    // registration index of the last child whose init/start was attempted

static void on_init(int w, bool ok) {
    VP_ASSERT(st[w] == NONE, "onInit only for a module that is not initialised");
    int p = par[w];
    if (p >= 0) {
        VP_ASSERT(own_init_in_progress[p], "a child's init hook runs after its parent's init hook succeeded (parents first)");
        VP_ASSERT(last_child_attempt[p] < w, "children are initialised in registration order");
        last_child_attempt[p] = w;
    }
    if (ok) { n_init_ok[w]++; st[w] = INITED; own_init_in_progress[w] = true; last_child_attempt[w] = -1; }
}
static void on_start(int w, bool ok) {
    VP_ASSERT(st[w] == INITED, "onStart only after a successful init (and not twice)");
    int p = par[w];
    if (p >= 0) {
        VP_ASSERT(own_start_in_progress[p], "a child's start hook runs after its parent's start hook succeeded (parents first)");
        VP_ASSERT(last_child_attempt[p] < w, "children are started in registration order");
        last_child_attempt[p] = w;
    }
    if (ok) { n_start_ok[w]++; st[w] = STARTED; own_start_in_progress[w] = true; last_child_attempt[w] = -1; }
}
static void on_stop(int w) {
    VP_ASSERT(st[w] == STARTED, "onStop only for a started module");
    for (int c = 0; c < NMOD; c++) if (par[c] == w) VP_ASSERT(st[c] != STARTED, "children are stopped before their parent (reverse nesting)");
    for (int s = w + 1; s < NMOD; s++) if (par[s] == par[w] && par[w] >= 0) VP_ASSERT(st[s] != STARTED, "siblings are stopped in reverse registration order");
    n_stop[w]++; st[w] = INITED;
}
static void on_cleanup(int w) {
    VP_ASSERT(st[w] == INITED, "onCleanup only for an initialised module that is not running (cleanup after stop)");
    for (int c = 0; c < NMOD; c++) if (par[c] == w) VP_ASSERT(st[c] == NONE, "children are cleaned up before their parent (reverse nesting)");
    for (int s = w + 1; s < NMOD; s++) if (par[s] == par[w] && par[w] >= 0) VP_ASSERT(st[s] == NONE, "siblings are cleaned up in reverse registration order");
    n_cleanup[w]++; st[w] = NONE;
}
struct Probe : Module {
    int id;
    Probe(int i, Context &c, const char *nm) : Module(nm, c), id(i) {}
    bool onInit(const tbox::Json &) override { on_init(id, init_ok[id]); return init_ok[id]; }
    bool onStart() override { on_start(id, start_ok[id]); return start_ok[id]; }
    void onStop() override { on_stop(id); }
    void onCleanup() override { on_cleanup(id); }
};
// reference semantics of the return values
static bool ref_init(int w) { if (!init_ok[w]) return false; for (int c = w + 1; c < NMOD; c++) if (par[c] == w) { if (!ref_init(c) && req[c]) return false; } return true; }

extern "C" void h_lifecycle() {
    alignas(16) static char ctx_store[64]; Context *ctx = reinterpret_cast<Context *>(ctx_store);   // Module only stores the reference
    Probe *m[NMOD];
    for (int i = 0; i < NMOD; i++) {
        m[i] = nullptr;
        init_ok[i] = nondet_bool(); start_ok[i] = nondet_bool(); req[i] = nondet_bool();
        st[i] = NONE; n_init_ok[i] = n_cleanup[i] = n_start_ok[i] = n_stop[i] = 0; own_init_in_progress[i] = own_start_in_progress[i] = false; last_child_attempt[i] = -1;
    }
    par[0] = -1; m[0] = new Probe(0, *ctx, "");
    static const char *const NAMES[] = {"", "b", "c", "d"};     // sibling names must be unique: the k-th child of a parent is called NAMES[k] (first one unnamed)
    int nchild[NMOD]; for (int i = 0; i < NMOD; i++) nchild[i] = 0;
    tbox::Json js = tbox::Json::object();           // config with exactly the sections the named modules look up
    tbox::Json *node[NMOD]; node[0] = &js;
    bool use_add_as = nondet_bool();                // both registration entry points (one choice per tree)
    for (int i = 1; i < NMOD; i++) {                // tree shape: parent of i is any earlier module
        unsigned p = nondet_uchar(); VP_ASSUME(p < (unsigned)i);
        par[i] = (int)p;
        const char *nm = NAMES[nchild[p]++];
        if (use_add_as) {
            m[i] = new Probe(i, *ctx, "tmp");
            VP_ASSERT(m[p]->addAs(m[i], nm, req[i]), "addAs accepts a fresh child");
        } else {
            m[i] = new Probe(i, *ctx, nm);
            VP_ASSERT(m[p]->add(m[i], req[i]), "add accepts a fresh child");
        }
        if (nm[0]) { (*node[p])[nm] = tbox::Json::object(); node[i] = &(*node[p])[nm]; } else node[i] = node[p];
    }
    bool ever_init_true = false;
    for (int k = 0; k < NCALLS; k++) {              // arbitrary (also repeated / out-of-order) calls on the root
        unsigned op = nondet_uchar(); VP_ASSUME(op <= 3);
        for (int i = 0; i < NMOD; i++) { own_init_in_progress[i] = own_start_in_progress[i] = false; last_child_attempt[i] = -1; }
        if (op == 0) {
            bool fresh = (m[0]->state() == Module::State::kNone);
            bool r = m[0]->initialize(js);
            if (fresh) VP_ASSERT(r == ref_init(0), "initialize() succeeds iff the root and every required descendant chain initialise (an optional failure does not stop siblings or ancestors)");
            else VP_ASSERT(!r, "initialize() on an initialised tree is rejected");
            if (r) ever_init_true = true;
        } else if (op == 1) { m[0]->start(); }
        else if (op == 2) { m[0]->stop(); }
        else { m[0]->cleanup(); }
        // no module is left half-way: a module whose hooks are unbalanced right now must be reachable by a later stop/cleanup of the root,
        // i.e. the root itself must still be initialised (otherwise nothing will ever clean it up)
        for (int w = 0; w < NMOD; w++)
            if (n_init_ok[w] != n_cleanup[w]) VP_ASSERT(m[0]->state() != Module::State::kNone, "no module stays initialised below a root that reports 'not initialised'");
    }
    bool final_cleanup = nondet_bool();            // destroy with or without an explicit cleanup() first
    if (final_cleanup) m[0]->cleanup();
    delete m[0];
    for (int w = 0; w < NMOD; w++) {
        // the root's OWN hooks cannot be reached from the base-class destructor (C++): excused when the caller skipped cleanup()
        if (w == 0 && !final_cleanup) continue;
        VP_ASSERT(n_init_ok[w] == n_cleanup[w], "every successful onInit is matched by exactly one onCleanup once the tree is cleaned up and destroyed");
        VP_ASSERT(n_start_ok[w] == n_stop[w], "every successful onStart is matched by exactly one onStop before that cleanup");
    }
    VP_REACH("lifecycle");
}
