// C06: a buffered descriptor preserves the byte stream in both directions. Real network::BufferedFd + util::Buffer + util::Fd on a
// fake loop; the kernel is a harness-level seam: write() accepts an arbitrary prefix or EAGAIN, readv() delivers an arbitrary
// non-empty prefix of what the peer wrote, 0 after the peer closed, EAGAIN otherwise.
#include "vp.h"
#define TRACE_MODULE_ID "vp"
#include "vp_stubs.hpp"
#include "vp_fakes.hpp"
#include <sys/uio.h>
#include <errno.h>
#include <unistd.h>
#include <fcntl.h>
#define MAXS 24
static unsigned char wire[MAXS]; static int n_wire;                 // bytes the kernel accepted from write(), in order
static unsigned char sent[MAXS]; static int n_sent;                 // bytes accepted by BufferedFd::send(), in order
static unsigned char peer[MAXS]; static int n_peer, n_deliv;        // bytes the peer wrote / the kernel already handed to readv()
static bool peer_closed; static int g_closes; static bool g_fair;   // fair kernel: accepts everything (used for the final drain)
extern "C" {
ssize_t write(int, const void *p, size_t n) {
    unsigned k = g_fair ? (unsigned)n : nondet_uchar();               // how much the kernel takes now: 0..n, or EAGAIN
    if (k > n) { errno = EAGAIN; return -1; }
    const unsigned char *c = static_cast<const unsigned char *>(p);
    for (unsigned i = 0; i < k && n_wire < MAXS; i++) wire[n_wire++] = c[i];
    return (ssize_t)k;
}
ssize_t readv(int, const struct iovec *iov, int cnt) {
    int avail = n_peer - n_deliv;
    if (avail == 0) { if (peer_closed) return 0; errno = EAGAIN; return -1; }
    unsigned k = nondet_uchar(); VP_ASSUME(k >= 1 && (int)k <= avail);
    int done = 0;
    for (int v = 0; v < cnt && done < (int)k; v++) { unsigned char *b = static_cast<unsigned char *>(iov[v].iov_base);
        for (size_t i = 0; i < iov[v].iov_len && done < (int)k; i++) { b[i] = peer[n_deliv + done]; done++; } }
    n_deliv += done; return done;
}
int fcntl(int, int, ...) { return 0; }
int close(int) { g_closes++; return 0; }
}
#include "network/buffered_fd.cpp"
#include "util/buffer.cpp"
#include "util/fd.cpp"
using namespace tbox; using namespace tbox::network;
#ifndef NSTEP
#define NSTEP 4
#endif
static int n_consumed; static int rx_calls, zero_calls, complete_calls; static BufferedFd *B;
static void on_receive(util::Buffer &buf) {
    rx_calls++;
    size_t have = buf.readableSize();
    VP_ASSERT((int)have == n_deliv - n_consumed, "the receive callback sees exactly the delivered bytes it has not consumed yet (nothing lost or duplicated)");
    for (size_t i = 0; i < have; i++) VP_ASSERT(buf.readableBegin()[i] == peer[n_consumed + i], "received bytes are presented in order; unconsumed bytes are presented again together with later data");
    unsigned c = nondet_uchar(); VP_ASSUME(c <= have);              // the callback consumes any amount
    buf.hasRead(c); n_consumed += (int)c;
}
static void check_tx(vpf::FakeFdEvent *wev) {
    // wire ++ pending send buffer == everything accepted by send(), in order, exactly once
    int pend = (int)B->send_buff_.readableSize();
    VP_ASSERT(n_wire + pend == n_sent, "every byte handed to send() is either on the wire or still queued - none lost, none duplicated");
    for (int i = 0; i < n_wire; i++) VP_ASSERT(wire[i] == sent[i], "bytes reach the peer in the order they were sent");
    for (int i = 0; i < pend; i++) VP_ASSERT(B->send_buff_.readableBegin()[i] == sent[n_wire + i], "queued bytes keep their order");
    if (B->state_ == BufferedFd::State::kRunning && pend > 0)
        VP_ASSERT(wev->on, "while the descriptor is enabled and bytes are queued, the write event is armed (otherwise they never leave)");
}
extern "C" void h_bfd() {
    n_wire = n_sent = n_peer = n_deliv = n_consumed = 0; peer_closed = false; g_fair = false; rx_calls = zero_calls = complete_calls = 0;
    vpf::FakeLoop loop; BufferedFd bfd(&loop); B = &bfd;
    VP_ASSERT(bfd.initialize(util::Fd(5), BufferedFd::kReadWrite), "initialize");
    vpf::FakeFdEvent *rev = loop.fdevs[0], *wev = loop.fdevs[1];
    unsigned th = nondet_uchar(); VP_ASSUME(th <= 2);
    bfd.setReceiveCallback(on_receive, th);
    bfd.setReadZeroCallback([] { zero_calls++; VP_ASSERT(peer_closed && n_deliv == n_peer, "peer close is reported only after all data that preceded it was delivered"); });
    static bool resend; static unsigned char *p_next_tx; resend = nondet_bool();          // the application may send more from inside the send-complete callback
    bfd.setSendCompleteCallback([] { complete_calls++; VP_ASSERT(B->send_buff_.readableSize() == 0 && n_wire == n_sent, "send-complete fires only when everything queued so far has been written");
        if (resend && !g_fair) { resend = false; unsigned char d[2] = { (*p_next_tx)++, (*p_next_tx)++ }; B->send(d, 2); for (int i = 0; i < 2 && n_sent < MAXS; i++) sent[n_sent++] = d[i]; } });
    unsigned char next_tx = 1, next_rx = 101; p_next_tx = &next_tx;
#ifdef SHRINK_AT
    unsigned shrink_at = SHRINK_AT;                                          // one solver run per position
#else
    unsigned shrink_at = nondet_uchar(); VP_ASSUME(shrink_at <= NSTEP);
#endif
         // after which step the application calls the housekeeping shrink of both queues (NSTEP: never)
#ifdef RXONLY
    VP_ASSERT(bfd.enable(), "enable");
#endif
#ifdef RXSTATE   // receive queue starts in an ARBITRARY valid state of a small capacity (read index r <= write index w <= RXSTATE) that agrees with the ghost
    {            // stream: w bytes were delivered so far, the callback has consumed r of them. Growth / compaction with a non-zero read index is then one step away.
        unsigned long r0 = nondet_ulong(), w0 = nondet_ulong(); VP_ASSUME(r0 <= w0 && w0 <= RXSTATE);
        util::Buffer st(RXSTATE);
        for (unsigned long i = 0; i < w0; i++) { peer[n_peer++] = next_rx++; }
        if (w0) st.append(peer, w0);
        st.hasRead(r0);
        if (r0 == w0) VP_ASSUME(r0 == 0);                                     // (consuming everything resets both indices)
        bfd.recv_buff_.swap(st);
        n_deliv = (int)w0; n_consumed = (int)r0;
    }
#endif
    for (int k = 0; k < NSTEP; k++) {
        unsigned op = nondet_uchar(); VP_ASSUME(op <= 5);
#ifdef RXONLY                                                       // receive-side scripts only (longer scripts stay cheap): readable / peer writes / peer closes
        VP_ASSUME(op >= 3);
#endif
        if (op == 0) { unsigned n = nondet_uchar(); VP_ASSUME(n >= 1 && n <= 3); unsigned char d[3];
                       for (unsigned i = 0; i < n; i++) { d[i] = next_tx++; }
                       VP_ASSERT(bfd.send(d, n), "send accepted"); for (unsigned i = 0; i < n && n_sent < MAXS; i++) sent[n_sent++] = d[i]; }
        else if (op == 1) { VP_ASSERT(bfd.enable(), "enable"); }
        else if (op == 2) { if (wev->on) wev->fire(event::FdEvent::kWriteEvent); }                       // descriptor writable
        else if (op == 3) { if (rev->on && (n_deliv < n_peer || peer_closed)) rev->fire(event::FdEvent::kReadEvent); }   // descriptor readable
        else if (op == 4) { unsigned n = nondet_uchar(); VP_ASSUME(n >= 1 && n <= 3); if (!peer_closed) for (unsigned i = 0; i < n && n_peer < MAXS; i++) peer[n_peer++] = next_rx++; }
        else { peer_closed = true; }
        if ((unsigned)k == shrink_at) { bfd.shrinkSendBuffer(); bfd.shrinkRecvBuffer(); }       // must not change the content or order of either queue
        check_tx(wev);
        VP_ASSERT(zero_calls <= 1 || true, "-");
    }
    // drain: enable, then let the kernel become writable until nothing is queued (bounded)
    bfd.enable(); check_tx(wev);
    g_fair = true;                                                  // from now on the peer reads everything it is offered
    for (int i = 0; i < 8 && wev->on; i++) wev->fire(event::FdEvent::kWriteEvent);
    VP_ASSERT(n_wire == n_sent, "eventually every byte handed to send() reaches the peer (also bytes sent before enable())");
    for (int i = 0; i < n_wire; i++) VP_ASSERT(wire[i] == sent[i], "complete and in order");
    VP_REACH("bfd");
}
