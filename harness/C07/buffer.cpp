// C07: util::Buffer is a FIFO byte queue — one-step inductive harnesses, one per operation.
// Pre-state: ANY state satisfying the representation invariant for a concrete capacity CAP
// (indices, contents, request size and data symbolic). Post: invariant + ghost-queue agreement.
#include "vp.h"
#include "util/buffer.cpp"        // = $REPO/modules/util/buffer.cpp (the real translation unit, current working tree)
using tbox::util::Buffer;
#ifndef CAP
#define CAP 4
#endif
#define NMAX 4                      // request sizes 0..NMAX (also > free space and > capacity for small CAP)
#define GMAX (CAP + NMAX + 1)
// request size: concrete per solver run when NREQ is given (symbolic allocation sizes stall the SAT back end), else symbolic
#ifdef NREQ
#define REQ(n) unsigned long n = NREQ
#else
#define REQ(n) unsigned long n = nondet_ulong(); VP_ASSUME(n <= NMAX)
#endif

static bool inv(const Buffer &b) {
    return b.read_index_ <= b.write_index_ && b.write_index_ <= b.buffer_size_ &&
           ((b.buffer_ptr_ == nullptr) == (b.buffer_size_ == 0));
}
struct Ghost { unsigned char d[GMAX]; unsigned long n; };

// arbitrary valid pre-state of capacity CAP; ghost = readable bytes
static void mk(Buffer &b, Ghost &g) {
    unsigned long r = nondet_ulong(), w = nondet_ulong();
    VP_ASSUME(r <= w && w <= CAP);
    b.read_index_ = r; b.write_index_ = w;
    g.n = w - r;
    for (unsigned long i = 0; i < CAP; i++) {
        unsigned char c = nondet_uchar();
        if (b.buffer_ptr_) b.buffer_ptr_[i] = c;          // whole storage symbolic (also the stale parts)
        if (i >= r && i < w) g.d[i - r] = c;
    }
}
static void check(const Buffer &b, const Ghost &g) {
    VP_ASSERT(inv(b), "post: representation invariant (r<=w<=size, ptr null iff size 0)");
    VP_ASSERT(b.readableSize() == g.n, "readable size == bytes written - bytes consumed");
    for (unsigned long i = 0; i < g.n; i++) VP_ASSERT(b.readableBegin()[i] == g.d[i], "readable bytes == ghost FIFO content, in order");
}
static void pop(Ghost &g, unsigned long k) { for (unsigned long i = 0; i + k < g.n; i++) g.d[i] = g.d[i + k]; g.n -= k; }

extern "C" void h_append() {
    Buffer b(CAP); Ghost g; mk(b, g);
    REQ(n);
    unsigned char data[NMAX]; for (int i = 0; i < NMAX; i++) data[i] = nondet_uchar();
    unsigned long k = b.append(data, n);
    VP_ASSERT(k == n, "append accepts everything (unbounded queue)");
    for (unsigned long i = 0; i < n; i++) g.d[g.n + i] = data[i];
    g.n += n;
    check(b, g); VP_REACH("append");
}
extern "C" void h_reserve_commit() {
    Buffer b(CAP); Ghost g; mk(b, g);
    REQ(n);
    bool ok = b.ensureWritableSize(n);
    VP_ASSERT(ok && b.writableSize() >= n, "reserve gives at least n writable bytes");
    check(b, g);                                   // reserving alone must not disturb the content
    unsigned long m = nondet_ulong(); VP_ASSUME(m <= n);
    for (unsigned long i = 0; i < m; i++) { unsigned char c = nondet_uchar(); b.writableBegin()[i] = c; g.d[g.n + i] = c; }
    b.hasWritten(m); g.n += m;
    check(b, g); VP_REACH("reserve_commit");
}
// commit without (or beyond) a reservation: hasWritten(m) with any m from any valid state never moves the write index past the storage;
// it makes min(m, writable) further storage bytes readable
extern "C" void h_commit_any() {
    Buffer b(CAP); Ghost g; mk(b, g);
    unsigned long m = nondet_ulong(); VP_ASSUME(m <= CAP + NMAX);
    unsigned long wr = b.writableSize();
    unsigned long k = m < wr ? m : wr;
    for (unsigned long i = 0; i < k; i++) g.d[g.n + i] = b.writableBegin()[i];
    g.n += k;
    b.hasWritten(m);
    check(b, g); VP_REACH("commit_any");
}
extern "C" void h_fetch() {
    Buffer b(CAP); Ghost g; mk(b, g);
    REQ(n);
    unsigned char out[NMAX + 2]; out[NMAX] = 0xA5; out[NMAX + 1] = 0x5A;
    unsigned long k = b.fetch(out, n);
    unsigned long e = n < g.n ? n : g.n;
    VP_ASSERT(k == e, "fetch returns min(request, readable)");
    for (unsigned long i = 0; i < e; i++) VP_ASSERT(out[i] == g.d[i], "fetched bytes are the oldest bytes, in order");
    VP_ASSERT(out[NMAX] == 0xA5 && out[NMAX + 1] == 0x5A, "fetch writes nothing beyond the destination");
    pop(g, e);
    check(b, g); VP_REACH("fetch");
}
extern "C" void h_consume() {
    Buffer b(CAP); Ghost g; mk(b, g);
    unsigned long n = nondet_ulong(); VP_ASSUME(n <= g.n);
    b.hasRead(n); pop(g, n);
    check(b, g); VP_REACH("consume");
}
extern "C" void h_consume_all() {
    Buffer b(CAP); Ghost g; mk(b, g);
    b.hasReadAll(); g.n = 0;
    check(b, g); VP_REACH("consume_all");
}
extern "C" void h_shrink() {
    Buffer b(CAP); Ghost g; mk(b, g);
    b.shrink();
    check(b, g); VP_REACH("shrink");
}
extern "C" void h_copy() {
    Buffer b(CAP); Ghost g; mk(b, g);
    {
        Buffer c(b);
        check(c, g); check(b, g);
        if (g.n) { c.readableBegin()[0] ^= 0xff; check(b, g); }       // independence: writing the copy leaves the source intact
        unsigned char x = nondet_uchar(); c.append(&x, 1);
        check(b, g);
    }
    check(b, g); VP_REACH("copy");                                    // destroying the copy leaves the source intact
}
extern "C" void h_copy_assign() {
    Buffer b(CAP); Ghost g; mk(b, g);
    Buffer c(CAP); Ghost g2; mk(c, g2);
    c = b;
    check(c, g); check(b, g);
    if (g.n) { b.readableBegin()[0] ^= 0xff; g.d[0] ^= 0xff; check(b, g); g.d[0] ^= 0xff; check(c, g); }
    VP_REACH("copy_assign");
}
extern "C" void h_self_assign() {
    Buffer b(CAP); Ghost g; mk(b, g);
    Buffer &a = b; b = a; check(b, g);
    b = static_cast<Buffer&&>(a); check(b, g);
    b.swap(a); check(b, g);
    VP_REACH("self_assign");
}
extern "C" void h_move() {
    Buffer b(CAP); Ghost g; mk(b, g);
    Buffer c(static_cast<Buffer&&>(b));
    check(c, g);
    Ghost e; e.n = 0; check(b, e);                                    // moved-from is empty ...
    unsigned char x = nondet_uchar(); VP_ASSERT(b.append(&x, 1) == 1, "moved-from buffer is reusable"); e.d[0] = x; e.n = 1; check(b, e);
    check(c, g); VP_REACH("move");
}
extern "C" void h_move_assign() {
    Buffer b(CAP); Ghost g; mk(b, g);
    Buffer c(CAP); Ghost g2; mk(c, g2);
    c = static_cast<Buffer&&>(b);
    check(c, g);
    Ghost e; e.n = 0; check(b, e);
    unsigned char x = nondet_uchar(); VP_ASSERT(b.append(&x, 1) == 1, "moved-from buffer is reusable"); e.d[0] = x; e.n = 1; check(b, e);
    check(c, g); VP_REACH("move_assign");
}
extern "C" void h_swap() {
    Buffer b(CAP); Ghost g; mk(b, g);
    Buffer c(CAP); Ghost g2; mk(c, g2);
    b.swap(c);
    check(b, g2); check(c, g); VP_REACH("swap");
}
extern "C" void h_reset() {
    Buffer b(CAP); Ghost g; mk(b, g);
    b.reset();
    Ghost e; e.n = 0; check(b, e);
    unsigned char x = nondet_uchar(); VP_ASSERT(b.append(&x, 1) == 1, "reset buffer is reusable"); e.d[0] = x; e.n = 1; check(b, e);
    VP_REACH("reset");
}
