// A sequential test double for the abstract back-end part of event::CommonLoop: the REAL CommonLoop code (timers, deferred tasks,
// signals) runs unchanged; only the pure virtual back-end entry points (runLoop / newFdEvent) are stubbed, and the harness drives
// "loop passes" itself. The monotonic clock is a harness-level definition of std::chrono::steady_clock::now() (virtual time).
#ifndef VP_SEQLOOP_HPP
#define VP_SEQLOOP_HPP
#include <chrono>
static unsigned long g_now_ms = 1000;      // virtual monotonic clock, advanced by the harness
namespace std { namespace chrono { inline namespace _V2 {
steady_clock::time_point steady_clock::now() noexcept { return time_point(duration(std::chrono::milliseconds(g_now_ms))); }
} } }
#include "event/common_loop.cpp"
#include "event/common_loop_timer.cpp"
#include "event/common_loop_run.cpp"
#include "event/common_loop_signal.cpp"
#include "event/timer_event_impl.cpp"
#include "event/signal_event_impl.cpp"
#include "event/misc.cpp"
#include "event/stat.cpp"
namespace vps {
using namespace tbox; using namespace tbox::event;
struct SeqLoop : CommonLoop {
    void runLoop(Mode) override {}
    FdEvent *newFdEvent(const std::string &) override { return nullptr; }
    void stopLoop() override {}
    // one loop pass as the real back ends do it: expired timers, then the deferred "next" tasks
    void pass() { handleExpiredTimers(); handleNextFunc(); }
};
}
#endif
