// Harness-level stand-ins for framework plumbing that is not the subject of a check (identical in the engines and in native replay).
#ifndef VP_STUBS_HPP
#define VP_STUBS_HPP
#include <tbox/base/recorder.h>
namespace tbox { namespace trace {
Recorder::Recorder(const char *name, const char *module, uint32_t line, bool) : name_(name), module_(module), line_(line) {}
Recorder::~Recorder() {}
void Recorder::start() {}
void Recorder::stop() {}
void RecordEvent(const char *, const char *, uint32_t) {}
} }
#ifdef VP_STUB_CATCHTHROW      // base/catch_throw.cpp without its logging / backtrace side: same catch-everything semantics
#include <tbox/base/catch_throw.h>
namespace tbox {
bool CatchThrow(const std::function<void()> &func, bool, bool) { try { if (func) func(); return false; } catch (...) { return true; } }
bool CatchThrowQuietly(const std::function<void()> &func) { try { if (func) func(); return false; } catch (...) { return true; } }
}
#endif
#endif
