// C08 (shared descriptor handle part): one operation from an ARBITRARY reference structure.
// Window: 4 handles h[0..3] over at most 2 detail records A,B. Which handle refers to which record is symbolic, ref_count is
// the number of referring handles (representation invariant), each record is open (fd >= 0) or already closed explicitly.
// One symbolic operation is applied to h[0] (with h[1] as second operand); then all handles die in a symbolic order.
// ::close is a link seam that counts closes per descriptor.
#include "vp.h"
#include <unistd.h>
static int g_closed[8];            // closes per descriptor number
static int g_bad_close;
extern "C" int close(int fd) { if (fd >= 0 && fd < 8) g_closed[fd]++; else g_bad_close++; return 0; }
#include "util/fd.cpp"
using tbox::util::Fd;
#define NH 4
static int g_cf_calls[8];
struct Rec { Fd::Detail *d; int fdnum; bool was_open; bool use_func; };

static int refs_to(Fd **h, int n, Fd::Detail *d) { int k = 0; for (int i = 0; i < n; i++) if (h[i] && h[i]->detail_ == d) k++; return k; }
static int total_closes(int fdnum) { return g_closed[fdnum] + g_cf_calls[fdnum]; }

extern "C" void h_fd_step() {
    for (int i = 0; i < 8; i++) { g_closed[i] = 0; g_cf_calls[i] = 0; } g_bad_close = 0;
    Rec rec[2];
    for (int r = 0; r < 2; r++) {
        rec[r].fdnum = r == 0 ? 0 : 4;            // descriptor numbers 0 (a valid descriptor: e.g. opened after stdin was closed) and 4
        rec[r].was_open = nondet_bool(); rec[r].use_func = nondet_bool();
        rec[r].d = new Fd::Detail; rec[r].d->fd = rec[r].was_open ? rec[r].fdnum : -1; rec[r].d->ref_count = 0;
        if (rec[r].use_func && rec[r].was_open) rec[r].d->close_func = [](int fd) { if (fd >= 0 && fd < 8) g_cf_calls[fd]++; };
    }
    Fd *h[NH];
    for (int i = 0; i < NH; i++) {
        h[i] = new Fd();
        unsigned w = nondet_uchar(); VP_ASSUME(w <= 2);        // 0: null handle, 1: record A, 2: record B
        if (w) { h[i]->detail_ = rec[w - 1].d; rec[w - 1].d->ref_count++; }
    }
    for (int r = 0; r < 2; r++) if (rec[r].d->ref_count == 0) { delete rec[r].d; rec[r].d = nullptr; }   // unreferenced record does not exist
    // expected closes so far: none
#ifdef OP
    unsigned op = OP;               // one solver run per operation (runs in parallel)
#else
    unsigned op = nondet_uchar(); VP_ASSUME(op <= 8);
#endif
    Fd::Detail *d0 = h[0]->detail_, *d1 = h[1]->detail_;
    int r0 = d0 ? refs_to(h, NH, d0) : 0, r1 = d1 ? refs_to(h, NH, d1) : 0;
    int f0 = d0 ? d0->fd : -1, f1 = d1 ? d1->fd : -1;
    int n0 = (d0 == rec[0].d) ? 0 : 1, n1 = (d1 == rec[0].d) ? 0 : 1;
    switch (op) {
    case 0: { Fd c(*h[0]); VP_ASSERT(c.get() == h[0]->get(), "copy refers to the same descriptor");                    // copy construct + destroy copy
              if (d0) VP_ASSERT(d0->ref_count == r0 + 1, "copy adds one reference"); }
            if (d0 && f0 >= 0) VP_ASSERT(total_closes(rec[n0].fdnum) == 0, "destroying a copy does not close while other handles remain");
            break;
    case 1: *h[0] = *h[1];                                                                                                // copy assign
            VP_ASSERT(h[0]->detail_ == d1, "assignment rebinds");
            if (d0 && d0 != d1 && r0 == 1 && f0 >= 0) VP_ASSERT(total_closes(rec[n0].fdnum) == 1, "last reference dropped by assignment closes exactly once");
            if (d0 && (r0 > 1 || d0 == d1) && f0 >= 0) VP_ASSERT(total_closes(rec[n0].fdnum) == 0, "assignment does not close a descriptor other handles still use");
            break;
    case 2: { Fd m(static_cast<Fd&&>(*h[0])); VP_ASSERT(h[0]->detail_ == nullptr && m.detail_ == d0, "move construct transfers");
              if (d0) VP_ASSERT(d0->ref_count == r0, "move keeps the reference count");
              *h[0] = static_cast<Fd&&>(m); }                                                                               // move back
            VP_ASSERT(h[0]->detail_ == d0, "move assign transfers back");
            if (d0 && f0 >= 0) VP_ASSERT(total_closes(rec[n0].fdnum) == 0, "moves never close");
            break;
    case 3: *h[0] = static_cast<Fd&&>(*h[1]);                                                                             // move assign from another handle
            VP_ASSERT(h[0]->detail_ == d1 || (d0 == d1), "move assign rebinds");
            if (d0 && d0 != d1 && r0 == 1 && f0 >= 0) VP_ASSERT(total_closes(rec[n0].fdnum) == 1, "move-assign over the last reference closes exactly once");
            if (d0 && r0 > 1 && f0 >= 0) VP_ASSERT(total_closes(rec[n0].fdnum) == 0, "move-assign does not close a shared descriptor");
            break;
    case 4: h[0]->reset();
            VP_ASSERT(h[0]->detail_ == nullptr && h[0]->isNull(), "reset empties the handle");
            if (d0 && f0 >= 0) VP_ASSERT(total_closes(rec[n0].fdnum) == (r0 == 1 ? 1 : 0), "reset closes iff it was the last reference");
            break;
    case 5: h[0]->close();
            if (d0 && f0 >= 0) VP_ASSERT(total_closes(rec[n0].fdnum) == 1, "explicit close closes exactly once");
            VP_ASSERT(h[0]->isNull(), "closed handle is null");
            h[0]->close();
            if (d0 && f0 >= 0) VP_ASSERT(total_closes(rec[n0].fdnum) == 1, "second explicit close is a no-op");
            break;
    case 6: h[0]->swap(*h[1]);
            VP_ASSERT(h[0]->detail_ == d1 && h[1]->detail_ == d0, "swap exchanges");
            break;
    case 7: { Fd &self = *h[0]; *h[0] = self; *h[0] = static_cast<Fd&&>(self); }                                         // self assignment
            VP_ASSERT(h[0]->detail_ == d0, "self assignment keeps the handle");
            if (d0) VP_ASSERT(d0->ref_count == r0, "self assignment keeps the count");
            break;
    default: break;
    }
    // representation invariant after the operation
    for (int r = 0; r < 2; r++) {
        Fd::Detail *d = rec[r].d; if (!d) continue;
        int refs = refs_to(h, NH, d);
        if (refs > 0) VP_ASSERT(d->ref_count == refs, "inv: ref_count == number of referring handles");
    }
    // all handles die, in a symbolic order (rotation)
    unsigned start = nondet_uchar(); VP_ASSUME(start < NH);
    for (int k = 0; k < NH; k++) {
        int i = (start + k) % NH;
        Fd::Detail *d = h[i]->detail_;
        int n = (d == rec[0].d) ? 0 : 1;
        int before = d ? total_closes(rec[n].fdnum) : 0; int refs = d ? refs_to(h, NH, d) : 0; int fdv = d ? d->fd : -1;
        delete h[i]; h[i] = nullptr;
        if (d && refs > 1) VP_ASSERT(total_closes(rec[n].fdnum) == before, "destroying a non-last handle never closes");
        if (d && refs == 1 && fdv >= 0) VP_ASSERT(total_closes(rec[n].fdnum) == before + 1, "destroying the last handle closes");
    }
    for (int r = 0; r < 2; r++) if (rec[r].d || true) {
        if (rec[r].was_open && (rec[r].d != nullptr)) VP_ASSERT(total_closes(rec[r].fdnum) == 1, "each open descriptor is closed exactly once overall");
        if (!rec[r].was_open) VP_ASSERT(total_closes(rec[r].fdnum) == 0, "an already closed descriptor is not closed again");
    }
    VP_ASSERT(g_bad_close == 0, "close never called with a foreign descriptor");
    VP_REACH("fd");
}
