// C08 (cabinet part): one-step inductive harness over tbox::cabinet::Cabinet<int>.
// Pre-state: ANY cabinet of NCELL cells satisfying the representation invariant (live ids distinct, non-zero, <= last_id_;
// free cells chained in an arbitrary order, given by a witness permutation; count_ == #live), with or without spare vector
// capacity, plus an arbitrary client token that alloc() may have produced earlier (id <= last_id_): live, stale or null.
#include "vp.h"
#include <tbox/base/cabinet.hpp>
using namespace tbox::cabinet;
#ifndef NCELL
#define NCELL 3
#endif
#ifndef SPARE
#define SPARE 1
#endif
typedef Cabinet<int> Cab;
typedef Cab::Cell Cell;
static const size_t NIL = (size_t)-1;
static int objs[NCELL + 3];

struct Pre { Token t; bool t_live; int *t_obj; size_t live; };

static void mk(Cab &c, Cell *mem, Pre &p) {
    c.cells_._M_impl._M_start = mem;
    c.cells_._M_impl._M_finish = mem + NCELL;
    c.cells_._M_impl._M_end_of_storage = mem + NCELL + SPARE;
    size_t nfree = nondet_ulong(); VP_ASSUME(nfree <= NCELL);
    size_t ord[NCELL];
    bool is_free[NCELL]; for (size_t i = 0; i < NCELL; i++) is_free[i] = false;
    for (size_t k = 0; k < NCELL; k++) {
        if (k < nfree) { ord[k] = nondet_ulong(); VP_ASSUME(ord[k] < NCELL); VP_ASSUME(!is_free[ord[k]]); is_free[ord[k]] = true; }
    }
    c.last_id_ = nondet_ulong(); VP_ASSUME(c.last_id_ < NIL - 4);      // id wrap at 2^64 is outside the claim
    for (size_t i = 0; i < NCELL; i++) {
        if (is_free[i]) { mem[i].id = 0; }
        else {
            mem[i].id = nondet_ulong(); VP_ASSUME(mem[i].id != 0 && mem[i].id <= c.last_id_);
            for (size_t j = 0; j < i; j++) VP_ASSUME(mem[j].id != mem[i].id);
            size_t v = nondet_ulong(); VP_ASSUME(v < NCELL + 1); mem[i].obj_ptr = &objs[v];
        }
    }
    for (size_t k = 0; k < NCELL; k++) if (k < nfree) mem[ord[k]].next_free = (k + 1 < nfree) ? ord[k + 1] : NIL;
    c.first_free_ = nfree ? ord[0] : NIL;
    c.count_ = NCELL - nfree;
    p.live = NCELL - nfree;
    size_t tid = nondet_ulong(); size_t tpos = nondet_ulong();     // (sequenced: argument evaluation order differs between compilers)
    p.t = Token(tid, tpos);
    VP_ASSUME(p.t.id() <= c.last_id_);        // tokens are only ever produced by alloc(): ids issued so far are <= last_id_
    p.t_live = !p.t.isNull() && p.t.pos() < NCELL && mem[p.t.pos()].id == p.t.id();
    p.t_obj = p.t_live ? mem[p.t.pos()].obj_ptr : nullptr;
}
// post-state invariant, restated over the real object (bounded walk of the free list)
static void post_inv(Cab &c, const Pre &p) {
    size_t n = c.cells_.size();
    VP_ASSERT(n <= NCELL + 1, "cells grow by at most one per alloc");
    size_t live = 0;
    for (size_t i = 0; i < n; i++) if (c.cells_[i].id != 0) {
        live++;
        VP_ASSERT(c.cells_[i].id <= c.last_id_, "inv: live ids <= last_id_");
        for (size_t j = 0; j < i; j++) VP_ASSERT(c.cells_[j].id != c.cells_[i].id, "inv: live entries have distinct ids (distinct tokens)");
    }
    VP_ASSERT(live == c.size(), "reported size == number of live entries");
    size_t pos = c.first_free_, walked = 0;
    for (size_t k = 0; k <= NCELL + 1; k++) {
        if (pos == NIL) break;
        VP_ASSERT(pos < n, "inv: free list stays inside the cells");
        VP_ASSERT(c.cells_[pos].id == 0, "inv: free list links only free cells");
        walked++; pos = c.cells_[pos].next_free;
    }
    VP_ASSERT(pos == NIL && walked == n - live, "inv: free list is acyclic and holds exactly the free cells");
    VP_ASSERT(p.t.id() <= c.last_id_, "inv: every token issued so far has id <= last_id_ (so later tokens are fresh)");
}
static void detach(Cab &, Cell *) {}   // storage comes from operator new, exactly as std::vector allocates it: ~vector releases it

extern "C" void h_lookup() {
    Cab c; Cell *mem = static_cast<Cell*>(::operator new(sizeof(Cell) * (NCELL + SPARE))); Pre p; mk(c, mem, p);
    VP_ASSERT(c.at(p.t) == p.t_obj, "at() returns the stored object iff the token is live, else nothing");
    VP_ASSERT(c[p.t] == p.t_obj, "operator[] agrees with at()");
    VP_ASSERT(c.size() == p.live && c.empty() == (p.live == 0), "size/empty");
    post_inv(c, p); VP_REACH("lookup"); detach(c, mem);
}
extern "C" void h_alloc() {
    Cab c; Cell *mem = static_cast<Cell*>(::operator new(sizeof(Cell) * (NCELL + SPARE))); Pre p; mk(c, mem, p);
    Token n = c.alloc(&objs[NCELL + 1]);
    VP_ASSERT(!n.isNull() && c.at(n) == &objs[NCELL + 1], "new token resolves to the new object");
    VP_ASSERT(!n.equal(p.t), "fresh token differs from every earlier token (live or stale)");
    VP_ASSERT(c.at(p.t) == p.t_obj, "earlier token unaffected by alloc (stale stays stale, live stays bound)");
    VP_ASSERT(c.size() == p.live + 1, "size + 1");
    post_inv(c, p);
    Token n2 = c.alloc(&objs[NCELL + 2]);       // second alloc exercises growth after reuse
    VP_ASSERT(!n2.equal(n) && !n2.equal(p.t) && c.at(n2) == &objs[NCELL + 2] && c.at(n) == &objs[NCELL + 1], "two fresh tokens distinct, both resolve");
    VP_ASSERT(c.at(p.t) == p.t_obj, "earlier token unaffected by second alloc");
    VP_REACH("alloc"); detach(c, mem);
}
extern "C" void h_free() {
    Cab c; Cell *mem = static_cast<Cell*>(::operator new(sizeof(Cell) * (NCELL + SPARE))); Pre p; mk(c, mem, p);
    int *r = c.free(p.t);
    VP_ASSERT(r == p.t_obj, "free returns the stored object iff live");
    VP_ASSERT(c.at(p.t) == nullptr, "freed token resolves to nothing");
    VP_ASSERT(c.size() == p.live - (p.t_live ? 1 : 0), "size - 1 iff live");
    post_inv(c, p);
    VP_ASSERT(c.free(p.t) == nullptr, "double free is a no-op");
    Token n = c.alloc(&objs[NCELL + 1]);
    VP_ASSERT(c.at(p.t) == nullptr, "stale token still resolves to nothing after its slot was reused");
    VP_ASSERT(c.at(n) == &objs[NCELL + 1], "slot reuse ok");
    post_inv(c, p);
    VP_REACH("free"); detach(c, mem);
}
extern "C" void h_update() {
    Cab c; Cell *mem = static_cast<Cell*>(::operator new(sizeof(Cell) * (NCELL + SPARE))); Pre p; mk(c, mem, p);
    bool ok = c.update(p.t, &objs[NCELL + 1]);
    VP_ASSERT(ok == p.t_live, "update succeeds iff live");
    VP_ASSERT(c.at(p.t) == (p.t_live ? &objs[NCELL + 1] : nullptr), "update rebinds live token only");
    VP_ASSERT(c.size() == p.live, "size unchanged");
    post_inv(c, p); VP_REACH("update"); detach(c, mem);
}
extern "C" void h_clear() {
    Cab c; Cell *mem = static_cast<Cell*>(::operator new(sizeof(Cell) * (NCELL + SPARE))); Pre p; mk(c, mem, p);
    c.clear();
    VP_ASSERT(c.size() == 0 && c.empty(), "clear empties");
    VP_ASSERT(c.at(p.t) == nullptr, "after clear every earlier token resolves to nothing");
    Token n = c.alloc(&objs[NCELL + 1]);
    VP_ASSERT(c.at(n) == &objs[NCELL + 1], "alloc after clear resolves");
    VP_ASSERT(!n.equal(p.t), "token issued after clear differs from every earlier token");
    VP_ASSERT(c.at(p.t) == nullptr, "earlier token still resolves to nothing after clear + alloc");
    post_inv(c, p);
    VP_REACH("clear"); detach(c, mem);
}
struct Remover { Cab *c; Token victim; int calls; int *seen[NCELL + 1]; };
extern "C" void h_foreach_remove() {
    Cab c; Cell *mem = static_cast<Cell*>(::operator new(sizeof(Cell) * (NCELL + SPARE))); Pre p; mk(c, mem, p);
    Remover r; r.c = &c; r.victim = p.t; r.calls = 0;
    // iterate with removal of an arbitrary token from inside the callback
    c.foreach([&r](int *o) { if (r.calls <= NCELL) r.seen[r.calls] = o; r.calls++; r.c->free(r.victim); });
    VP_ASSERT((size_t)r.calls <= p.live && (size_t)r.calls + 1 >= p.live + (p.live == 0), "foreach visits live entries only (the removed one at most once)");
    VP_ASSERT(p.live == 0 || c.at(p.t) == nullptr, "token removed during iteration resolves to nothing");
    post_inv(c, p); VP_REACH("foreach_remove"); detach(c, mem);
}
