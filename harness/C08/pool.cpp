// C08 (object pool part): bounded histories of alloc/free on the real ObjectPool<Probe> with a symbolic retention limit.
// Engine B's memory model reports use-after-free / double free / out-of-bounds inside the pool itself; the harness checks
// that a handed-out block is never one that is still in use and that constructor/destructor calls pair up.
#include "vp.h"
#include <tbox/base/object_pool.hpp>
#ifndef STEPS
#define STEPS 5
#endif
#define MAXLIVE 3
static int g_ctor, g_dtor;
struct Probe {
    unsigned long tag; unsigned long pad;
    explicit Probe(unsigned long t) : tag(t), pad(~t) { ++g_ctor; }
    ~Probe() { ++g_dtor; tag = 0xdeadUL; }
};
extern "C" void h_pool() {
    g_ctor = g_dtor = 0;
    unsigned long keep = nondet_ulong();
    VP_ASSUME(keep <= 2 || keep == (unsigned long)-1);
    int allocs = 0, frees = 0;
    {
        tbox::ObjectPool<Probe> pool(keep);
        Probe *live[MAXLIVE]; int nlive = 0;
        for (int s = 0; s < STEPS; s++) {
            bool do_alloc = nondet_bool();
            if (do_alloc) {
                if (nlive == MAXLIVE) continue;
                Probe *p = pool.alloc((unsigned long)(100 + s));
                ++allocs;
                VP_ASSERT(p != nullptr, "alloc returns storage");
                for (int i = 0; i < nlive; i++) VP_ASSERT(p != live[i], "pool never hands out storage that is still in use");
                VP_ASSERT(p->tag == (unsigned long)(100 + s) && p->pad == ~(unsigned long)(100 + s), "constructor ran with the given arguments");
                live[nlive++] = p;
            } else {
                if (nlive == 0) continue;
                unsigned k = nondet_uchar(); VP_ASSUME(k < (unsigned)nlive);
                Probe *victim = live[k];
                for (int i = k; i + 1 < nlive; i++) live[i] = live[i + 1];
                --nlive;
                pool.free(victim); ++frees;
                for (int i = 0; i < nlive; i++)      // freeing one object leaves the others intact (parked block link does not overlap live data)
                    VP_ASSERT(live[i]->tag >= 100 && live[i]->pad == ~live[i]->tag, "other live objects intact after free");
            }
            VP_ASSERT(g_ctor == allocs && g_dtor == frees, "exactly one constructor per alloc and one destructor per free");
            VP_ASSERT(pool.free_number_ <= keep, "parked blocks never exceed the retention limit");
        }
        while (nlive > 0) { pool.free(live[--nlive]); ++frees; }
        VP_REACH("pool");
    }   // ~ObjectPool releases parked blocks (double free / invalid free is reported by the engine's memory model)
    VP_ASSERT(g_ctor == allocs && g_dtor == frees && allocs == frees, "constructor/destructor balance at the end");
}

// nested use: an element whose constructor allocates another element from the SAME pool (tree / chain nodes), with free blocks parked
struct Node {
    unsigned long tag; Node *child; unsigned long pad;
    Node(tbox::ObjectPool<Node> *pool, unsigned long t, int depth) : tag(t), child(nullptr), pad(~t) { ++g_ctor; if (depth > 0) child = pool->alloc(pool, t + 1, depth - 1); }
    ~Node() { ++g_dtor; tag = 0xdeadUL; }
};
extern "C" void h_pool_nested() {
    g_ctor = g_dtor = 0;
    unsigned long keep = nondet_ulong(); VP_ASSUME(keep <= 2 || keep == (unsigned long)-1);
    {
        tbox::ObjectPool<Node> pool(keep);
        unsigned pre = nondet_uchar(); VP_ASSUME(pre <= 2);                   // blocks parked in the free list beforehand
        Node *tmp[2];
        for (unsigned i = 0; i < pre; i++) tmp[i] = pool.alloc(&pool, 50ul + i, 0);
        for (unsigned i = 0; i < pre; i++) pool.free(tmp[i]);
        int c0 = g_ctor, d0 = g_dtor;
        Node *n = pool.alloc(&pool, 100ul, 2);                                   // constructs a chain of three nodes from inside the constructors
        VP_ASSERT(n && n->child && n->child->child && !n->child->child->child, "the nested allocations produced the chain");
        VP_ASSERT(n != n->child && n != n->child->child && n->child != n->child->child, "pool never hands out storage that is still in use (also while its constructor is running)");
        VP_ASSERT(n->tag == 100 && n->pad == ~100ul && n->child->tag == 101 && n->child->pad == ~101ul && n->child->child->tag == 102 && n->child->child->pad == ~102ul, "every object keeps what its constructor wrote");
        VP_ASSERT(g_ctor == c0 + 3 && g_dtor == d0, "one constructor per alloc");
        Node *c = n->child, *cc = c->child;
        pool.free(cc); pool.free(c); pool.free(n);
        VP_ASSERT(g_dtor == d0 + 3, "one destructor per free");
        VP_ASSERT(pool.free_number_ <= keep, "parked blocks never exceed the retention limit");
        VP_REACH("pool_nested");
    }
}
