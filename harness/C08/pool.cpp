// C08 (object pool part): bounded histories of alloc/free on the real ObjectPool<Probe> with a symbolic retention limit.
// Engine B's memory model reports use-after-free / double free / out-of-bounds inside the pool itself; the harness checks
// that a handed-out block is never one that is still in use and that constructor/destructor calls pair up.
#include "vp.h"
#include <tbox/base/object_pool.hpp>
#ifndef STEPS
#define STEPS 5
#endif
#define MAXLIVE 3
static int g_ctor, g_dtor;
struct Probe {
    unsigned long tag; unsigned long pad;
    explicit Probe(unsigned long t) : tag(t), pad(~t) { ++g_ctor; }
    ~Probe() { ++g_dtor; tag = 0xdeadUL; }
};
extern "C" void h_pool() {
    g_ctor = g_dtor = 0;
    unsigned long keep = nondet_ulong();
    VP_ASSUME(keep <= 2 || keep == (unsigned long)-1);
    int allocs = 0, frees = 0;
    {
        tbox::ObjectPool<Probe> pool(keep);
        Probe *live[MAXLIVE]; int nlive = 0;
        for (int s = 0; s < STEPS; s++) {
            bool do_alloc = nondet_bool();
            if (do_alloc) {
                if (nlive == MAXLIVE) continue;
                Probe *p = pool.alloc((unsigned long)(100 + s));
                ++allocs;
                VP_ASSERT(p != nullptr, "alloc returns storage");
                for (int i = 0; i < nlive; i++) VP_ASSERT(p != live[i], "pool never hands out storage that is still in use");
                VP_ASSERT(p->tag == (unsigned long)(100 + s) && p->pad == ~(unsigned long)(100 + s), "constructor ran with the given arguments");
                live[nlive++] = p;
            } else {
                if (nlive == 0) continue;
                unsigned k = nondet_uchar(); VP_ASSUME(k < (unsigned)nlive);
                Probe *victim = live[k];
                for (int i = k; i + 1 < nlive; i++) live[i] = live[i + 1];
                --nlive;
                pool.free(victim); ++frees;
                for (int i = 0; i < nlive; i++)      // freeing one object leaves the others intact (parked block link does not overlap live data)
                    VP_ASSERT(live[i]->tag >= 100 && live[i]->pad == ~live[i]->tag, "other live objects intact after free");
            }
            VP_ASSERT(g_ctor == allocs && g_dtor == frees, "exactly one constructor per alloc and one destructor per free");
            VP_ASSERT(pool.free_number_ <= keep, "parked blocks never exceed the retention limit");
        }
        while (nlive > 0) { pool.free(live[--nlive]); ++frees; }
        VP_REACH("pool");
    }   // ~ObjectPool releases parked blocks (double free / invalid free is reported by the engine's memory model)
    VP_ASSERT(g_ctor == allocs && g_dtor == frees && allocs == frees, "constructor/destructor balance at the end");
}
