// C19 / MD5 block feeding: for every message length in the window and every split into two updates, the digest equals an independent
// RFC 1321 implementation. Message bytes are concrete (so both MD5 computations run concretely inside the engine); the LENGTH and the
// SPLIT point are symbolic - this is the part of MD5 (buffering, padding at the 56-byte boundary, length encoding) that the property's
// "for any split of the message into updates" quantifies over. Equivalence of the compression function on symbolic data is NOT claimed.
#include "vp.h"
#include "crypto/md5.cpp"
using tbox::crypto::MD5;
namespace ref {                                    // RFC 1321 written from the specification: table from floor(2^32 * abs(sin(i+1))) constants, rotations per round
static const uint32_t K[64] = {
 0xd76aa478,0xe8c7b756,0x242070db,0xc1bdceee,0xf57c0faf,0x4787c62a,0xa8304613,0xfd469501,0x698098d8,0x8b44f7af,0xffff5bb1,0x895cd7be,0x6b901122,0xfd987193,0xa679438e,0x49b40821,
 0xf61e2562,0xc040b340,0x265e5a51,0xe9b6c7aa,0xd62f105d,0x02441453,0xd8a1e681,0xe7d3fbc8,0x21e1cde6,0xc33707d6,0xf4d50d87,0x455a14ed,0xa9e3e905,0xfcefa3f8,0x676f02d9,0x8d2a4c8a,
 0xfffa3942,0x8771f681,0x6d9d6122,0xfde5380c,0xa4beea44,0x4bdecfa9,0xf6bb4b60,0xbebfbc70,0x289b7ec6,0xeaa127fa,0xd4ef3085,0x04881d05,0xd9d4d039,0xe6db99e5,0x1fa27cf8,0xc4ac5665,
 0xf4292244,0x432aff97,0xab9423a7,0xfc93a039,0x655b59c3,0x8f0ccc92,0xffeff47d,0x85845dd1,0x6fa87e4f,0xfe2ce6e0,0xa3014314,0x4e0811a1,0xf7537e82,0xbd3af235,0x2ad7d2bb,0xeb86d391};
static const unsigned S[64] = {7,12,17,22,7,12,17,22,7,12,17,22,7,12,17,22,5,9,14,20,5,9,14,20,5,9,14,20,5,9,14,20,4,11,16,23,4,11,16,23,4,11,16,23,4,11,16,23,6,10,15,21,6,10,15,21,6,10,15,21,6,10,15,21};
static void md5(const unsigned char *msg, size_t len, unsigned char out[16]) {
    uint32_t h[4] = {0x67452301, 0xefcdab89, 0x98badcfe, 0x10325476};
    unsigned char buf[256]; size_t n = 0;
    for (; n < len; n++) buf[n] = msg[n];
    buf[n++] = 0x80; while (n % 64 != 56) buf[n++] = 0;
    uint64_t bits = (uint64_t)len * 8; for (int i = 0; i < 8; i++) buf[n++] = (unsigned char)(bits >> (8 * i));
    for (size_t off = 0; off < n; off += 64) {
        uint32_t w[16]; for (int i = 0; i < 16; i++) w[i] = (uint32_t)buf[off + 4 * i] | ((uint32_t)buf[off + 4 * i + 1] << 8) | ((uint32_t)buf[off + 4 * i + 2] << 16) | ((uint32_t)buf[off + 4 * i + 3] << 24);
        uint32_t a = h[0], b = h[1], c = h[2], d = h[3];
        for (int i = 0; i < 64; i++) {
            uint32_t f; int g;
            if (i < 16) { f = (b & c) | (~b & d); g = i; } else if (i < 32) { f = (d & b) | (~d & c); g = (5 * i + 1) % 16; } else if (i < 48) { f = b ^ c ^ d; g = (3 * i + 5) % 16; } else { f = c ^ (b | ~d); g = (7 * i) % 16; }
            uint32_t t = a + f + K[i] + w[g]; a = d; d = c; c = b; b = b + ((t << S[i]) | (t >> (32 - S[i])));
        }
        h[0] += a; h[1] += b; h[2] += c; h[3] += d;
    }
    for (int i = 0; i < 4; i++) for (int k = 0; k < 4; k++) out[4 * i + k] = (unsigned char)(h[i] >> (8 * k));
}
}
#ifndef LBASE
#define LBASE 52
#endif
#ifndef LSPAN
#define LSPAN 7
#endif
extern "C" void h_md5_split() {
    unsigned char msg[140]; for (int i = 0; i < 140; i++) msg[i] = (unsigned char)(i * 7 + 3);
    unsigned dl = nondet_uchar(); VP_ASSUME(dl <= LSPAN);                     // length window [LBASE, LBASE+LSPAN]
    unsigned ci = nondet_uchar(); VP_ASSUME(ci < 6);
    // make length and split point CONCRETE on every path (vp_concretize: one path per value): a symbolic buffer index would turn the
    // whole 64-byte block into if-then-else terms and the compression function into a solver problem, which is not what is claimed here
    size_t len = LBASE + vp_concretize(dl);
    static const unsigned CUT[] = {0, 1, 55, 56, 64, 1000};                   // where the message is split into two updates (1000 = no split)
    size_t want_cut = CUT[vp_concretize(ci)];
    size_t cut = want_cut > len ? len : want_cut;
    MD5 m; m.update(msg, cut); m.update(msg + cut, len - cut);
    unsigned char got[16], want[16]; m.finish(got); ref::md5(msg, len, want);
    for (int i = 0; i < 16; i++) VP_ASSERT(got[i] == want[i], "MD5 digest equals the independent RFC 1321 implementation for this length and split");
    VP_REACH("md5_split");
}
