// C19 / string-level codecs (engine B): URL percent-encoding round trip, hex-string decoder totality.
#include "vp.h"
#include "util/string.cpp"
#include "http/url.cpp"
#ifndef N
#define N 3
#endif
using namespace tbox;
extern "C" void h_url_roundtrip() {
    vp_global_ctors();
    char in[N]; for (int i = 0; i < N; i++) in[i] = (char)nondet_uchar();
    bool path_mode = nondet_bool();
    std::string s(in, N);
    std::string e = http::UrlEncode(s, path_mode);
    VP_ASSERT(e.size() >= (size_t)N && e.size() <= (size_t)3 * N, "encoded size between n and 3n");
    for (size_t i = 0; i < e.size(); i++) { unsigned char c = e[i]; VP_ASSERT(c >= 0x21 && c <= 0x7e, "encoded text is printable ASCII without spaces"); }
    std::string d = http::UrlDecode(e);
    VP_ASSERT(d.size() == (size_t)N, "decode(encode(s)) has the original length");
    for (int i = 0; i < N; i++) VP_ASSERT(d[i] == in[i], "decode(encode(s)) == s");
    VP_REACH("url_roundtrip");
}
extern "C" void h_url_decode_any() {
    vp_global_ctors();
    char in[N + 1]; for (int i = 0; i < N + 1; i++) in[i] = (char)nondet_uchar();
    std::string s(in, N + 1);
    bool threw = false; size_t outsz = 0;
    try { std::string d = http::UrlDecode(s); outsz = d.size(); }
    catch (const std::exception &) { threw = true; }          // clean failure by C++ exception is allowed
    VP_ASSERT(threw || outsz <= (size_t)N + 1, "decoded text never longer than the input");
    VP_REACH("url_decode_any");
}
extern "C" void h_hex_decode_any() {
    char in[N + 2]; for (int i = 0; i < N + 2; i++) in[i] = (char)nondet_uchar();
    size_t len = nondet_ulong(); VP_ASSUME(len <= (size_t)N + 2);
    std::string s(in, len);
    unsigned char out[4]; for (int i = 0; i < 4; i++) out[i] = 0xA5;
    unsigned short cap = nondet_ushort(); VP_ASSUME(cap <= 3);
    bool threw = false; size_t r = 0;
    try { r = util::string::HexStrToRawData(s, out, cap); }
    catch (const std::exception &) { threw = true; }
    if (!threw) {
        VP_ASSERT(r <= cap && r <= len / 2, "hex decode returns at most min(capacity, pairs)");
        for (size_t i = 0; i < r; i++) {
            unsigned char h = in[2 * i], l = in[2 * i + 1];
            unsigned hv = h <= '9' ? h - '0' : (h | 0x20) - 'a' + 10, lv = l <= '9' ? l - '0' : (l | 0x20) - 'a' + 10;
            VP_ASSERT(out[i] == ((hv << 4) | lv), "decoded byte is the value of its two hex digits");
        }
    }
    for (size_t i = cap; i < 4; i++) VP_ASSERT(out[i] == 0xA5, "hex decode never writes beyond the capacity it was given");
    VP_REACH("hex_decode_any");
}
extern "C" void h_hex_vector_any() {
    char in[N + 1]; for (int i = 0; i < N + 1; i++) in[i] = (char)nondet_uchar();
    std::string s(in, N + 1);
    std::vector<uint8_t> v;
    bool with_delim = nondet_bool();
    bool threw = false; size_t r = 0;
    try { r = util::string::HexStrToRawData(s, v, with_delim ? std::string(" ") : std::string()); }
    catch (const std::exception &) { threw = true; }
    if (!threw) VP_ASSERT(r == v.size() && r <= (size_t)N + 1, "vector hex decode reports what it produced");
    VP_REACH("hex_vector_any");
}
