// C19 / CRC-16, CRC-32, 8/16-bit checksums against bitwise references written from the published definitions (no tables).
#include "vp.h"
#include "util/crc.cpp"
#include "util/checksum.cpp"
using namespace tbox::util;
#ifndef NB
#define NB 4
#endif
static uint16_t ref_crc16_ccitt(const unsigned char *p, size_t n, uint16_t crc) {      // poly x^16+x^12+x^5+1, MSB first, no reflection, no final xor
    for (size_t i = 0; i < n; i++) {
        crc ^= (uint16_t)p[i] << 8;
        for (int b = 0; b < 8; b++) crc = (crc & 0x8000) ? (uint16_t)((crc << 1) ^ 0x1021) : (uint16_t)(crc << 1);
    }
    return crc;
}
static uint32_t ref_crc32(const unsigned char *p, size_t n, uint32_t crc) {            // IEEE 802.3, reflected 0xEDB88320, final complement
    for (size_t i = 0; i < n; i++) {
        crc ^= p[i];
        for (int b = 0; b < 8; b++) crc = (crc & 1) ? (crc >> 1) ^ 0xEDB88320u : crc >> 1;
    }
    return ~crc;
}
static uint8_t ref_sum8(const unsigned char *p, size_t n) {                              // one's-complement 8-bit sum, complemented
    uint32_t s = 0; for (size_t i = 0; i < n; i++) s += p[i];
    while (s >> 8) s = (s & 0xff) + (s >> 8);
    return (uint8_t)~s;
}
static uint16_t ref_sum16(const unsigned char *p, size_t n) {                            // RFC 1071, big-endian words, odd byte padded with zero
    uint32_t s = 0;
    for (size_t i = 0; i + 1 < n; i += 2) s += (uint32_t)p[i] << 8 | p[i + 1];
    if (n & 1) s += (uint32_t)p[n - 1] << 8;
    while (s >> 16) s = (s & 0xffff) + (s >> 16);
    return (uint16_t)~s;
}
#define DATA unsigned char d[NB]; for (int i = 0; i < NB; i++) d[i] = nondet_uchar(); size_t n = nondet_ulong(); VP_ASSUME(n <= NB)
extern "C" void h_crc16() { DATA; uint16_t seed = nondet_ushort();
    VP_ASSERT(CalcCrc16(d, n, seed) == ref_crc16_ccitt(d, n, seed), "CRC-16/CCITT equals the bitwise definition for every seed"); VP_REACH("crc16"); }
extern "C" void h_crc32() { DATA; uint32_t seed = nondet_uint();
    VP_ASSERT(CalcCrc32(d, n, seed) == ref_crc32(d, n, seed), "CRC-32 equals the bitwise IEEE definition for every seed"); VP_REACH("crc32"); }
extern "C" void h_sum8() { DATA;
    VP_ASSERT(CalcCheckSum8(d, n) == ref_sum8(d, n), "8-bit checksum equals the one's-complement sum definition"); VP_REACH("sum8"); }
extern "C" void h_sum16() { DATA;
    VP_ASSERT(CalcCheckSum16(d, n) == ref_sum16(d, n), "16-bit checksum equals RFC 1071"); VP_REACH("sum16"); }

// long inputs: the 16-bit accumulator of the 8-bit checksum can only matter once the byte sum passes 0xffff (>= 258 bytes). A fully symbolic
// 300-byte input does not finish in the SAT back ends (>15 min), so the first NFIX bytes are fixed to 0xff (the fastest way to reach the carry)
// and the tail of NB bytes and the length are symbolic.
#ifndef NFIX
#define NFIX 290
#endif
#define R10(x) x, x, x, x, x, x, x, x, x, x
#define R50(x) R10(x), R10(x), R10(x), R10(x), R10(x)
#define R290(x) R50(x), R50(x), R50(x), R50(x), R50(x), R10(x), R10(x), R10(x), R10(x)
static unsigned char g_long[290 + 16] = { R290(0xff) };          // (a statically initialised array keeps the prefix concrete for the bounded model checker)
extern "C" void h_sum8_long() {
    unsigned char *d = g_long;
    for (int i = 0; i < NB; i++) d[NFIX + i] = nondet_uchar();
    size_t n = nondet_ulong(); VP_ASSUME(n <= NFIX + NB);
    VP_ASSERT(CalcCheckSum8(d, n) == ref_sum8(d, n), "8-bit checksum equals the one's-complement sum definition on long inputs (byte sum beyond 16 bits)");
    VP_REACH("sum8_long");
}
