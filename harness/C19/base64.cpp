// C19 / Base64: exact inverse, advertised sizes, capacity respected, decoder total on arbitrary bytes.
#include "vp.h"
#include "util/base64.cpp"
using namespace tbox::util;
#ifndef N
#define N 3          // raw length for the round trip (one solver run per length)
#endif
#ifndef L
#define L 4          // encoded length for the arbitrary-input decoder harness
#endif
#define ENC(n) (((n) + 2) / 3 * 4)

// independent reference: value of a Base64 alphabet character, by arithmetic (no table)
static int ref_val(unsigned char c) {
    if (c >= 'A' && c <= 'Z') return c - 'A';
    if (c >= 'a' && c <= 'z') return c - 'a' + 26;
    if (c >= '0' && c <= '9') return c - '0' + 52;
    if (c == '+') return 62;
    if (c == '/') return 63;
    return -1;
}
static unsigned char ref_chr(unsigned v) {
    return v < 26 ? 'A' + v : v < 52 ? 'a' + (v - 26) : v < 62 ? '0' + (v - 52) : v == 62 ? '+' : '/';
}

// round trip through the raw-buffer API with exactly sufficient capacities and guard bytes behind both outputs
extern "C" void h_roundtrip_raw() {
    unsigned char raw[N]; for (int i = 0; i < N; i++) raw[i] = nondet_uchar();
    char enc[ENC(N) + 2]; enc[ENC(N)] = 0x5A; enc[ENC(N) + 1] = 0x5B;
    size_t el = base64::Encode(raw, N, enc, ENC(N));
    VP_ASSERT(el == base64::EncodeLength(N) && el == ENC(N), "Encode produces exactly EncodeLength bytes");
    VP_ASSERT(enc[ENC(N)] == 0x5A && enc[ENC(N) + 1] == 0x5B, "Encode writes nothing beyond the capacity it was given");
    // reference encoding (RFC 4648) by arithmetic
    for (int g = 0; g * 3 < N; g++) {
        unsigned b0 = raw[g * 3], b1 = g * 3 + 1 < N ? raw[g * 3 + 1] : 0, b2 = g * 3 + 2 < N ? raw[g * 3 + 2] : 0;
        VP_ASSERT((unsigned char)enc[g * 4] == ref_chr(b0 >> 2), "encoded char 0 of group matches RFC 4648");
        VP_ASSERT((unsigned char)enc[g * 4 + 1] == ref_chr(((b0 & 3) << 4) | (b1 >> 4)), "encoded char 1 of group matches RFC 4648");
        VP_ASSERT((unsigned char)enc[g * 4 + 2] == (g * 3 + 1 < N ? ref_chr(((b1 & 15) << 2) | (b2 >> 6)) : '='), "encoded char 2 of group matches RFC 4648");
        VP_ASSERT((unsigned char)enc[g * 4 + 3] == (g * 3 + 2 < N ? ref_chr(b2 & 63) : '='), "encoded char 3 of group matches RFC 4648");
    }
    VP_ASSERT(base64::DecodeLength(enc, el) == N, "DecodeLength of an encoding is the raw length");
    unsigned char out[N + 2]; out[N] = 0xA5; out[N + 1] = 0xA6;
    size_t dl = base64::Decode(enc, el, out, N);                    // capacity exactly sufficient
    VP_ASSERT(dl == N, "Decode with exactly sufficient capacity returns the raw length");
    for (int i = 0; i < N; i++) VP_ASSERT(out[i] == raw[i], "decode(encode(x)) == x");
    VP_ASSERT(out[N] == 0xA5 && out[N + 1] == 0xA6, "Decode writes nothing beyond the capacity it was given");
    VP_REACH("roundtrip_raw");
}
// capacity one short / zero: refuse and write nothing
extern "C" void h_short_capacity() {
    unsigned char raw[N]; for (int i = 0; i < N; i++) raw[i] = nondet_uchar();
    char enc[ENC(N) + 1]; for (int i = 0; i <= ENC(N); i++) enc[i] = 0x5A;
    size_t cap = nondet_ulong(); VP_ASSUME(cap >= 1 && cap < ENC(N));
    VP_ASSERT(base64::Encode(raw, N, enc, cap) == 0, "Encode refuses a capacity that is too small");
    for (int i = 0; i <= ENC(N); i++) VP_ASSERT(enc[i] == 0x5A, "refused Encode writes nothing");
    size_t el = base64::Encode(raw, N, enc, ENC(N));
    unsigned char out[N + 1]; for (int i = 0; i <= N; i++) out[i] = 0xA5;
    size_t cap2 = nondet_ulong(); VP_ASSUME(cap2 < N);
    VP_ASSERT(base64::Decode(enc, el, out, cap2) == 0, "Decode refuses a capacity that is too small");
    for (int i = 0; i <= N; i++) VP_ASSERT(out[i] == 0xA5, "refused Decode writes nothing");
    VP_REACH("short_capacity");
}
// decoder on ARBITRARY bytes (0..255) of length L with an arbitrary capacity: clean result, bounded writes, correct when accepted
extern "C" void h_decode_any() {
    char in[L + 1]; for (int i = 0; i < L; i++) in[i] = (char)nondet_uchar(); in[L] = 0;
    size_t cap = nondet_ulong(); VP_ASSUME(cap <= L);
    unsigned char out[L + 2]; for (int i = 0; i < L + 2; i++) out[i] = 0xA5;
    size_t r = base64::Decode(in, L, out, cap);
    VP_ASSERT(r <= cap, "Decode never reports more bytes than the capacity");
    for (size_t i = cap; i < L + 2; i++) VP_ASSERT(out[i] == 0xA5, "Decode never writes beyond the output capacity it was given");
    if (r > 0) {
        // accepted: every character before the first '=' is in the alphabet and the output is its RFC 4648 decoding
        unsigned acc = 0; int bits = 0; size_t w = 0;
        for (int i = 0; i < L; i++) {
            unsigned char c = (unsigned char)in[i];
            if (c == '=') break;
            int v = ref_val(c);
            VP_ASSERT(v >= 0, "a non-zero result means every character before the padding is a Base64 character");
            acc = (acc << 6) | (unsigned)v; bits += 6;
            if (bits >= 8) { bits -= 8; VP_ASSERT(w >= r || out[w] == ((acc >> bits) & 0xff), "decoded byte matches RFC 4648"); w++; }
        }
        VP_ASSERT(r == w, "number of decoded bytes matches the number of complete bytes encoded before the padding");
    }
    VP_REACH("decode_any");
}
// std::string / std::vector overloads agree with the raw API (engine B only: std::string/vector internals)
extern "C" void h_string_api() {
    unsigned char raw[N]; for (int i = 0; i < N; i++) raw[i] = nondet_uchar();
    std::string s = base64::Encode(raw, N);
    VP_ASSERT(s.size() == ENC(N), "string Encode has the advertised size");
    char enc[ENC(N)]; base64::Encode(raw, N, enc, ENC(N));
    for (int i = 0; i < ENC(N); i++) VP_ASSERT(s[i] == enc[i], "string Encode equals raw Encode");
    std::vector<uint8_t> v;
    size_t n = base64::Decode(s, v);
    VP_ASSERT(n == N && v.size() == N, "vector Decode returns the raw length");
    for (int i = 0; i < N; i++) VP_ASSERT(v[i] == raw[i], "vector decode(encode(x)) == x");
    VP_ASSERT(base64::DecodeLength(s) == N, "DecodeLength(string)");
    VP_REACH("string_api");
}
extern "C" void h_string_decode_any() {
    char in[L + 1]; for (int i = 0; i < L; i++) { in[i] = (char)nondet_uchar(); } in[L] = 0;
    std::string s(in, L);
    std::vector<uint8_t> v;
    size_t n = base64::Decode(s, v);
    VP_ASSERT(n == 0 || n == v.size(), "vector Decode reports what it appended when it succeeds");
    VP_ASSERT(v.size() <= (size_t)L / 4 * 3, "vector Decode never produces more than the advertised size");
    VP_REACH("string_decode_any");
}
