// C19 / scalable integer: Dump/Parse are exact inverses on every 64-bit value, sizes as documented, capacity respected,
// parser total on arbitrary bytes.
#include "vp.h"
#include "util/scalable_integer.cpp"
using namespace tbox::util;
// independent reference for the documented format: k bytes carry 7k payload bits, ranges are stacked (offset encoding)
static size_t ref_len(uint64_t v, uint64_t *minv) {
    uint64_t lo = 0;
    for (size_t k = 1; k <= 9; k++) {
        uint64_t span = (uint64_t)1 << (7 * k);          // 2^(7k) values of length k
        if (v - lo < span) { *minv = lo; return k; }
        lo += span;
    }
    *minv = lo; return 10;
}
extern "C" void h_si_roundtrip() {
    uint64_t v = nondet_ulong();
    size_t cap = nondet_ulong(); VP_ASSUME(cap <= 12);
    unsigned char buf[13]; for (int i = 0; i < 13; i++) buf[i] = 0xA5;
    size_t n = DumpScalableInteger(v, buf, cap);
    uint64_t lo; size_t want = ref_len(v, &lo);
    VP_ASSERT(n == (cap >= want ? want : 0), "Dump uses exactly the documented number of bytes, or fails when the capacity is short");
    for (size_t i = (n ? n : 0); i < 13; i++) VP_ASSERT(buf[i] == 0xA5, "Dump writes nothing beyond the bytes it reports (nor anything on failure)");
    if (n) {
        // format: continuation bit on all but the last byte, payload big-endian 7-bit groups of (v - range minimum)
        uint64_t payload = v - lo, acc = 0;
        for (size_t i = 0; i < n; i++) { VP_ASSERT(((buf[i] & 0x80) != 0) == (i + 1 < n), "continuation bit set on all but the last byte"); acc = (acc << 7) | (buf[i] & 0x7f); }
        VP_ASSERT(n == 10 || acc == payload, "payload is v minus the minimum of its length class, big-endian 7-bit groups");
        uint64_t out = ~v;
        size_t m = ParseScalableInteger(buf, n, out);
        VP_ASSERT(m == n && out == v, "Parse(Dump(v)) == v and consumes exactly the dumped bytes");
        size_t cut = nondet_ulong(); VP_ASSUME(cut < n);
        uint64_t out2 = 7;
        VP_ASSERT(ParseScalableInteger(buf, cut, out2) == 0, "truncated encoding fails cleanly (0)");
        VP_REACH("si_roundtrip");
    }
}
extern "C" void h_si_parse_any() {
    unsigned char buf[12]; for (int i = 0; i < 12; i++) buf[i] = nondet_uchar();
    size_t sz = nondet_ulong(); VP_ASSUME(sz <= 12);
    uint64_t out = 0;
    size_t r = ParseScalableInteger(buf, sz, out);
    VP_ASSERT(r <= sz, "Parse never consumes more than it was given");
    VP_ASSERT(r <= 10, "an encoding has at most 10 bytes");
    if (r > 0 && r <= 9) {
        unsigned char again[12];
        size_t n = DumpScalableInteger(out, again, 12);
        VP_ASSERT(n == r, "decoded value re-encodes to the same length");
        for (size_t i = 0; i < r; i++) VP_ASSERT(again[i] == buf[i], "decoded value re-encodes to the same bytes (decoder is the inverse of the encoder)");
    }
    VP_REACH("si_parse_any");
}
