// C19 / Serializer + Deserializer: inverse on every field sequence, position arithmetic, capacity respected, truncated input fails cleanly.
#include "vp.h"
#include "util/serializer.cpp"
using namespace tbox::util;
#ifndef NF
#define NF 2                       // fields per sequence
#endif
#define BUF 24
// field kinds: 0 u8, 1 u16, 2 u32, 3 u64, 4 raw bytes (len 0..3), 5 POD (len 1..3)
struct Field { unsigned kind; unsigned long val; unsigned len; unsigned char bytes[3]; };
static unsigned fsize(const Field &f) { return f.kind == 0 ? 1 : f.kind == 1 ? 2 : f.kind == 2 ? 4 : f.kind == 3 ? 8 : f.len; }

extern "C" void h_ser_roundtrip() {
    bool big = nondet_bool();
    Endian en = big ? Endian::kBig : Endian::kLittle;
    Field f[NF];
    for (int i = 0; i < NF; i++) {
        f[i].kind = nondet_uchar(); VP_ASSUME(f[i].kind <= 5);
        f[i].val = nondet_ulong();
        f[i].len = nondet_uchar(); VP_ASSUME(f[i].len <= 3 && (f[i].kind != 5 || f[i].len >= 1));
        for (int k = 0; k < 3; k++) f[i].bytes[k] = nondet_uchar();
    }
    unsigned char buf[BUF + 2]; for (int i = 0; i < BUF + 2; i++) buf[i] = 0xA5;
    size_t cap = nondet_ulong(); VP_ASSUME(cap <= BUF);
    Serializer s(buf, cap, en);
    size_t pos = 0; int accepted = 0; bool full = false;
    for (int i = 0; i < NF; i++) {
        bool ok;
        switch (f[i].kind) {
            case 0: ok = s.append((uint8_t)f[i].val); break;
            case 1: ok = s.append((uint16_t)f[i].val); break;
            case 2: ok = s.append((uint32_t)f[i].val); break;
            case 3: ok = s.append((uint64_t)f[i].val); break;
            case 4: ok = s.append(f[i].bytes, f[i].len); break;
            default: ok = s.appendPOD(f[i].bytes, f[i].len); break;
        }
        bool fits = pos + fsize(f[i]) <= cap;
        VP_ASSERT(ok == fits, "append succeeds iff the field fits the remaining capacity");
        if (!ok) { full = true; VP_ASSERT(s.pos() == pos, "a refused append leaves the position unchanged"); break; }
        pos += fsize(f[i]); accepted++;
        VP_ASSERT(s.pos() == pos, "position advances by exactly the field size");
    }
    for (size_t i = cap; i < BUF + 2; i++) VP_ASSERT(buf[i] == 0xA5, "serializer never writes beyond the capacity it was given");
    for (size_t i = pos; i < BUF + 2; i++) VP_ASSERT(buf[i] == 0xA5, "serializer writes nothing beyond the reported position");
    // wire format: most significant byte first iff big endian
    if (accepted > 0 && f[0].kind == 2) {
        uint32_t v = (uint32_t)f[0].val;
        for (int k = 0; k < 4; k++) VP_ASSERT(buf[k] == (uint8_t)(v >> (big ? 8 * (3 - k) : 8 * k)), "u32 wire order matches the endianness");
    }
    Deserializer d(buf, pos, en);
    size_t rpos = 0;
    for (int i = 0; i < accepted; i++) {
        bool ok = true;
        switch (f[i].kind) {
            case 0: { uint8_t v = 0; ok = d.fetch(v); VP_ASSERT(ok && v == (uint8_t)f[i].val, "u8 round trip"); break; }
            case 1: { uint16_t v = 0; ok = d.fetch(v); VP_ASSERT(ok && v == (uint16_t)f[i].val, "u16 round trip"); break; }
            case 2: { uint32_t v = 0; ok = d.fetch(v); VP_ASSERT(ok && v == (uint32_t)f[i].val, "u32 round trip"); break; }
            case 3: { uint64_t v = 0; ok = d.fetch(v); VP_ASSERT(ok && v == (uint64_t)f[i].val, "u64 round trip"); break; }
            case 4: { unsigned char o[3] = {0, 0, 0}; ok = d.fetch(o, f[i].len); VP_ASSERT(ok, "bytes fetch ok");
                      for (unsigned k = 0; k < f[i].len; k++) VP_ASSERT(o[k] == f[i].bytes[k], "bytes round trip"); break; }
            default: { unsigned char o[3] = {0, 0, 0}; ok = d.fetchPOD(o, f[i].len); VP_ASSERT(ok, "POD fetch ok");
                      for (unsigned k = 0; k < f[i].len; k++) VP_ASSERT(o[k] == f[i].bytes[k], "POD round trip"); break; }
        }
        rpos += fsize(f[i]);
        VP_ASSERT(d.pos() == rpos, "deserializer position advances by exactly the field size");
    }
    VP_ASSERT(d.pos() == pos, "everything written is consumed");
    uint8_t extra; VP_ASSERT(!d.fetch(extra), "fetch beyond the end fails");
    VP_REACH("ser_roundtrip");
}
// decoder on truncated / arbitrary input: every fetch kind with every remaining size fails cleanly and reads nothing outside
extern "C" void h_deser_truncated() {
    unsigned char store[16]; for (int i = 0; i < 16; i++) store[i] = nondet_uchar();
    size_t size = nondet_ulong(); VP_ASSUME(size <= 9);
    size_t start = nondet_ulong(); VP_ASSUME(start <= size);
    bool big = nondet_bool();
    Deserializer d(store, size, big ? Endian::kBig : Endian::kLittle);      // bytes store[size..15] are NOT part of the input
    if (start) VP_ASSERT(d.skip(start), "skip inside the input succeeds");
    unsigned kind = nondet_uchar(); VP_ASSUME(kind <= 6);
    size_t remain = size - start; size_t need; bool ok;
    unsigned char o[8]; size_t len = nondet_ulong(); VP_ASSUME(len <= 8);
    uint64_t got = 0, want = 0;
    switch (kind) {
        case 0: { uint8_t v = 0; need = 1; ok = d.fetch(v); got = v; break; }
        case 1: { uint16_t v = 0; need = 2; ok = d.fetch(v); got = v; break; }
        case 2: { uint32_t v = 0; need = 4; ok = d.fetch(v); got = v; break; }
        case 3: { uint64_t v = 0; need = 8; ok = d.fetch(v); got = v; break; }
        case 4: { need = len; ok = d.fetch(o, len); break; }
        case 5: { need = len; ok = d.fetchPOD(o, len); break; }
        default: { need = len; const void *p = d.fetchNoCopy(len); ok = p != nullptr; if (ok) VP_ASSERT(p == store + start, "fetchNoCopy points into the input"); break; }
    }
    VP_ASSERT(ok == (need <= remain), "fetch succeeds iff enough input remains; otherwise it fails cleanly");
    VP_ASSERT(d.pos() == start + (ok ? need : 0) && d.pos() <= d.size(), "position stays inside the input");
    if (ok && kind <= 3) {
        for (size_t k = 0; k < need; k++) want |= (uint64_t)store[start + k] << (big ? 8 * (need - 1 - k) : 8 * k);
        VP_ASSERT(got == want, "integer decoded only from bytes inside the input, in the configured byte order");
    }
    VP_REACH("deser_truncated");
}

// one-step inductive form: ONE append from an arbitrary position p (invariant p <= capacity), then ONE fetch from p.
// Every append touches only [p, p+size) and keeps the invariant, so field sequences of any length follow.
extern "C" void h_ser_step() {
    bool big = nondet_bool(); Endian en = big ? Endian::kBig : Endian::kLittle;
    Field f; f.kind = nondet_uchar(); VP_ASSUME(f.kind <= 5);
    f.val = nondet_ulong(); f.len = nondet_uchar(); VP_ASSUME(f.len <= 3 && (f.kind != 5 || f.len >= 1));
    for (int k = 0; k < 3; k++) f.bytes[k] = nondet_uchar();
    unsigned char buf[20]; unsigned char shadow[20];
    for (int i = 0; i < 20; i++) { buf[i] = nondet_uchar(); shadow[i] = buf[i]; }
    size_t cap = nondet_ulong(); VP_ASSUME(cap <= 16);
    size_t p = nondet_ulong(); VP_ASSUME(p <= cap);
    Serializer s(buf, cap, en); s.pos_ = p;
    bool ok;
    switch (f.kind) {
        case 0: ok = s.append((uint8_t)f.val); break;
        case 1: ok = s.append((uint16_t)f.val); break;
        case 2: ok = s.append((uint32_t)f.val); break;
        case 3: ok = s.append((uint64_t)f.val); break;
        case 4: ok = s.append(f.bytes, f.len); break;
        default: ok = s.appendPOD(f.bytes, f.len); break;
    }
    size_t sz = fsize(f);
    VP_ASSERT(ok == (p + sz <= cap), "append succeeds iff the field fits the remaining capacity");
    VP_ASSERT(s.pos() == (ok ? p + sz : p) && s.pos() <= cap, "position advances by exactly the field size and stays within the capacity");
    for (size_t i = 0; i < 20; i++) if (!ok || i < p || i >= p + sz) VP_ASSERT(buf[i] == shadow[i], "append writes only the bytes of its own field (nothing before the position, nothing beyond the capacity)");
    if (ok) {
        if (f.kind <= 3) for (size_t k = 0; k < sz; k++)
            VP_ASSERT(buf[p + k] == (uint8_t)(f.val >> (big ? 8 * (sz - 1 - k) : 8 * k)), "integer wire order matches the endianness");
        Deserializer d(buf, p + sz, en); VP_ASSERT(p == 0 || d.skip(p), "skip to the field");
        switch (f.kind) {
            case 0: { uint8_t v = 0; VP_ASSERT(d.fetch(v) && v == (uint8_t)f.val, "u8 round trip"); break; }
            case 1: { uint16_t v = 0; VP_ASSERT(d.fetch(v) && v == (uint16_t)f.val, "u16 round trip"); break; }
            case 2: { uint32_t v = 0; VP_ASSERT(d.fetch(v) && v == (uint32_t)f.val, "u32 round trip"); break; }
            case 3: { uint64_t v = 0; VP_ASSERT(d.fetch(v) && v == (uint64_t)f.val, "u64 round trip"); break; }
            case 4: { unsigned char o[3] = {0, 0, 0}; VP_ASSERT(d.fetch(o, f.len), "bytes fetch ok"); for (unsigned k = 0; k < f.len; k++) VP_ASSERT(o[k] == f.bytes[k], "bytes round trip"); break; }
            default: { unsigned char o[3] = {0, 0, 0}; VP_ASSERT(d.fetchPOD(o, f.len), "POD fetch ok"); for (unsigned k = 0; k < f.len; k++) VP_ASSERT(o[k] == f.bytes[k], "POD round trip"); break; }
        }
        VP_ASSERT(d.pos() == p + sz, "fetch consumes exactly the field");
    }
    VP_REACH("ser_step");
}
