// C09 (sinks): the record a sink writes for one log call is complete - level code, time stamp, thread, module, function, the text cut to
// exactly the configured maximum with the truncation mark, file and line - for the synchronous stdout sink (printf) and for the
// asynchronous sinks (AsyncSink on the real AsyncPipe: records framed through the pipe, reassembled by the back-end thread), also after a
// sink has been disabled and enabled again; everything logged before disable() returns has been written.
// printf-family functions are a small harness-level formatter (%c %s %.*s %d %u %ld %lu with 0-width) writing to a capture buffer.
#include "vp.h"
#include <stdarg.h>
#include <stdio.h>
#include <string.h>
#include <time.h>
#include <sys/time.h>
#include <unistd.h>
#include <sys/syscall.h>
#include <thread>
static char g_out[512]; static unsigned g_on;                       // what reached "stdout"
static void out_put(char c) { if (g_on < sizeof(g_out)) g_out[g_on] = c; g_on++; }
static int vp_vfmt(char *buf, size_t size, const char *fmt, va_list ap) {
    size_t n = 0;
    #define PUT(ch) do { char c_ = (ch); if (buf) { if (n + 1 < size) buf[n] = c_; } else out_put(c_); n++; } while (0)
    for (const char *p = fmt; *p; p++) {
        if (*p != '%') { PUT(*p); continue; }
        p++;
        bool zero = false, lng = false; int width = 0, prec = -1;
        if (*p == '0') { zero = true; p++; }
        while (*p >= '0' && *p <= '9') { width = width * 10 + (*p - '0'); p++; }
        if (*p == '.') { p++; if (*p == '*') { prec = va_arg(ap, int); p++; } else { prec = 0; while (*p >= '0' && *p <= '9') { prec = prec * 10 + (*p - '0'); p++; } } }
        if (*p == 'l') { lng = true; p++; }
        if (*p == 'c') { int c = va_arg(ap, int); PUT((char)c); }
        else if (*p == 's') { const char *s = va_arg(ap, const char *); for (int i = 0; (prec < 0 || i < prec) && s[i]; i++) PUT(s[i]); }
        else if (*p == 'd' || *p == 'u') {
            unsigned long v; bool neg = false;
            if (*p == 'd') { long x = lng ? va_arg(ap, long) : (long)va_arg(ap, int); if (x < 0) { neg = true; v = 0ul - (unsigned long)x; } else v = (unsigned long)x; }
            else v = lng ? va_arg(ap, unsigned long) : (unsigned long)va_arg(ap, unsigned);
            char tmp[24]; int k = 0; do { tmp[k++] = (char)('0' + v % 10); v /= 10; } while (v);
            if (neg) PUT('-');
            for (int i = k + (neg ? 1 : 0); i < width; i++) PUT(zero ? '0' : ' ');
            while (k) PUT(tmp[--k]);
        }
        else if (*p == '%') PUT('%');
        else VP_ASSERT(false, "harness formatter: unsupported conversion");
    }
    if (buf && size) buf[n < size ? n : size - 1] = 0;
    #undef PUT
    return (int)n;
}
extern "C" {
int vsnprintf(char *buf, size_t size, const char *fmt, va_list ap) { return vp_vfmt(buf, size, fmt, ap); }
int snprintf(char *buf, size_t size, const char *fmt, ...) { va_list ap; va_start(ap, fmt); int r = vp_vfmt(buf, size, fmt, ap); va_end(ap); return r; }
int printf(const char *fmt, ...) { va_list ap; va_start(ap, fmt); int r = vp_vfmt(nullptr, 0, fmt, ap); va_end(ap); return r; }
int putc(int c, FILE *) { out_put((char)c); return c; }          // (the extern-inline putchar of <stdio.h> lowers to putc)
int puts(const char *s) { while (*s) out_put(*s++); out_put('\n'); return 1; }
int gettimeofday(struct timeval *tv, void *) { tv->tv_sec = 1700000000; tv->tv_usec = 123456; return 0; }
long syscall(long, ...) { return 4242; }
struct tm *localtime_r(const time_t *, struct tm *r) { return r; }
size_t strftime(char *s, size_t, const char *, const struct tm *) { s[0] = 'T'; s[1] = 'S'; s[2] = 0; return 2; }
ssize_t write(int, const void *, size_t n) { return (ssize_t)n; }
}
static int vp_putchar(int c) { out_put((char)c); return c; }
#define putchar vp_putchar            /* <stdio.h> defines putchar as an extern inline under -O1 */
#include "base/log_impl.cpp"
#include "log/sink.cpp"
#include "log/sync_stdout_sink.cpp"
#include "log/async_sink.cpp"
#include "util/async_pipe.cpp"
#include "util/buffer.cpp"
#include <tbox/base/log.h>
using namespace tbox;
#define MAXLEN 6
// reference record
static char g_exp[512]; static unsigned g_en;
static void exp_s(const char *s) { while (*s) { if (g_en < sizeof(g_exp)) g_exp[g_en] = *s; g_en++; s++; } }
static void exp_record(bool color, int level, const char *module, const char *func, const char *text, unsigned n, const char *file, const char *line) {
    static const char CODE[] = {'F', 'E', 'W', 'N', 'I', 'I', 'D', 'T'};
    static const char *const COLOR[] = {"7;91", "31", "7;93", "93", "7;92", "32", "36", "35"};
    if (color) { exp_s("\033["); exp_s(COLOR[level]); exp_s("m"); }
    char c[2] = {CODE[level], 0}; exp_s(c); exp_s(" TS.123456 4242 "); exp_s(module); exp_s(" "); exp_s(func); exp_s("() ");
    unsigned k = n <= MAXLEN ? n : MAXLEN;
    if (k > 0) { for (unsigned i = 0; i < k; i++) { char t[2] = {text[i], 0}; exp_s(t); } exp_s(" "); }
    if (n > MAXLEN) exp_s("(TRUNCATED) ");
    exp_s("-- "); exp_s(file); exp_s(":"); exp_s(line);
    if (color) exp_s("\033[0m");
    exp_s("\n");
}
static void check_out(const char *what) {
    VP_ASSERT(g_on == g_en, what);
    for (unsigned i = 0; i < g_en && i < sizeof(g_exp); i++) VP_ASSERT(g_out[i] == g_exp[i], what);
}
static void mk_text(char *text, unsigned n) { for (unsigned i = 0; i < n; i++) text[i] = (char)('a' + i); text[n] = 0; }
// (5) synchronous stdout sink: one call = one complete line, for both the formatted and the unformatted entry point
extern "C" void h_sync_record() {
    g_on = g_en = 0; LogSetMaxLength(MAXLEN);
    log::SyncStdoutSink sink; bool color = nondet_bool(); sink.enableColor(color); VP_ASSERT(sink.enable(), "enable");
    char text[12]; unsigned n = nondet_uchar(); VP_ASSUME(n <= 10); n = (unsigned)vp_concretize(n); mk_text(text, n);
    unsigned level = nondet_uchar(); VP_ASSUME(level <= 7); level = (unsigned)vp_concretize(level);
    bool with_args = nondet_bool();
    if (with_args) LogPrintfFunc("mod", "fn", "/a/x.cpp", 57, (int)level, 1, "%s", text);
    else LogPrintfFunc("mod", "fn", "/a/x.cpp", 57, (int)level, 0, text);
    exp_record(color, (int)level, "mod", "fn", text, n, "x.cpp", "57");
    check_out("the synchronous stdout sink writes exactly one complete record per call: header, the text cut to exactly the maximum, the truncation mark iff cut, file:line");
    sink.disable(); unsigned before = g_on;
    LogPrintfFunc("mod", "fn", "/a/x.cpp", 58, 3, 0, "later");
    VP_ASSERT(g_on == before, "nothing is written after the sink was disabled");
    VP_REACH("sync_record");
}
// (6) asynchronous sink on the real AsyncPipe: enable - log - disable - enable - log - disable
#ifndef PBUF
#define PBUF 48
#endif
struct ProbeAsync : log::AsyncSink {
    void endline() override { cache_.push_back('\n'); }
    void flush() override { for (char c : cache_) out_put(c); cache_.clear(); }
};
extern "C" void h_async_record() {
    g_on = g_en = 0; LogSetMaxLength(MAXLEN);
    ProbeAsync sink; log::AsyncSink::Config cfg; cfg.buff_size = PBUF; cfg.buff_min_num = 1; cfg.buff_max_num = 2; cfg.interval = 1000; sink.setConfig(cfg);
    char text[12]; unsigned n = nondet_uchar(); VP_ASSUME(n <= 8); n = (unsigned)vp_concretize(n); mk_text(text, n);
    VP_ASSERT(sink.enable(), "enable");
    LogPrintfFunc("mod", "fn", "/a/x.cpp", 57, 4, 0, text);
    sink.disable();                                                   // joins the back-end thread: a hang is a deadlock reported by the engine
    exp_record(false, 4, "mod", "fn", text, n, "x.cpp", "57");
    check_out("everything logged before disable() is written, as one complete record, when disable() returns");
    VP_ASSERT(sink.enable(), "enable again");
    LogPrintfFunc("m2", "g", "y.cpp", 9, 1, 0, "zz");
    sink.disable();
    exp_record(false, 1, "m2", "g", "zz", 2, "y.cpp", "9");
    check_out("a sink that was disabled and enabled again delivers records like a fresh one");
    VP_REACH("async_record");
}
