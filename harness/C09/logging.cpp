// C09: each log call produces exactly one complete record in every enabled sink whose threshold it passes, none otherwise; text longer
// than the configured maximum is cut to exactly the maximum and marked truncated; records of concurrent threads are never interleaved.
// Real base/log_impl.cpp (LogPrintfFunc, Dispatch, channel table) and log/sink.cpp (filter, enable/disable, per-module levels).
// vsnprintf is a harness-level contract stub: it reports an arbitrary would-be length L and writes at most size-1 bytes + NUL.
#include "vp.h"
#include <stdarg.h>
#include <stdio.h>
#include <sys/time.h>
#include <unistd.h>
#include <sys/syscall.h>
#include <thread>
static unsigned long g_L;                       // would-be length of the formatted text (symbolic)
static unsigned long g_vs_calls, g_vs_overrun;
extern "C" {
int vsnprintf(char *buf, size_t size, const char *, va_list) {
    g_vs_calls++;
    if (size > 0) { size_t k = g_L < size - 1 ? g_L : size - 1; buf[k] = 0; if (k > 0) buf[0] = 'x'; if (k > 1) buf[k - 1] = 'y'; }      // first/last byte and terminator only (content is not the subject)
    return (int)g_L;
}
int gettimeofday(struct timeval *tv, void *) { tv->tv_sec = 1700000000; tv->tv_usec = 123456; return 0; }
long syscall(long, ...) { return 4242; }
}
#include "base/log_impl.cpp"
#include "log/sink.cpp"
#include <tbox/base/log.h>
using namespace tbox;
struct Rec { int n; int level, line; unsigned len; bool trunc; const char *module, *func, *file; long tid; unsigned sec, usec; char first, last; bool terminated; };
static Rec g_rec; static int g_in_cb, g_overlap;
static void recorder(const LogContent *c, void *) {
    if (g_in_cb) g_overlap = 1; g_in_cb = 1;
    g_rec.n++; g_rec.level = c->level; g_rec.line = c->line; g_rec.len = c->text_len; g_rec.trunc = c->text_trunc; g_rec.module = c->module_id; g_rec.func = c->func_name; g_rec.file = c->file_name;
    g_rec.tid = c->thread_id; g_rec.sec = c->timestamp.sec; g_rec.usec = c->timestamp.usec;
    if (c->text_ptr && c->text_len) { g_rec.first = c->text_ptr[0]; g_rec.last = c->text_ptr[c->text_len - 1]; g_rec.terminated = true; }
    g_in_cb = 0;
}
static bool streq(const char *a, const char *b) { if (!a || !b) return a == b; while (*a && *a == *b) { a++; b++; } return *a == *b; }
// (1) formatting path: every would-be length against boundary values of the configured maximum
extern "C" void h_printf_len() {
    static const unsigned long MAXS[] = {10, 2047, 2048, 2049, 3000};
    unsigned mi = nondet_uchar(); VP_ASSUME(mi < 5); unsigned long maxlen = MAXS[vp_concretize(mi)];
    LogSetMaxLength(maxlen);
    uint32_t id = LogAddPrintfFunc(recorder, nullptr);
    // would-be length: boundary values around the stack-buffer size (2048) and around the configured maximum (the VLA in LogPrintfFunc is
    // sized by it, so a fully symbolic length would fork once per value)
    unsigned long cands[10] = {0, 1, 2047, 2048, 2049, 5000, maxlen - 1, maxlen, maxlen + 1, maxlen + 2048};
    unsigned li = nondet_uchar(); VP_ASSUME(li < 10);
    g_rec.n = 0; g_L = cands[vp_concretize(li)];
    int level = (int)nondet_uint(); VP_ASSUME(level >= -2 && level <= 12);
    LogPrintfFunc("mod", "fn", "/a/b/file.cpp", 77, level, 1, "%s", "ignored");
    VP_ASSERT(g_rec.n == 1, "exactly one record per log call");
    VP_ASSERT(g_rec.len == (g_L <= maxlen ? g_L : maxlen), "text length is min(formatted length, configured maximum)");
    VP_ASSERT(g_rec.trunc == (g_L > maxlen), "the truncated mark is set iff text was cut");
    VP_ASSERT(streq(g_rec.module, "mod") && streq(g_rec.func, "fn") && streq(g_rec.file, "file.cpp") && g_rec.line == 77, "module, function, file (basename) and line are intact");
    VP_ASSERT(g_rec.level == (level < 0 ? 0 : level >= LOG_LEVEL_MAX ? LOG_LEVEL_MAX - 1 : level), "level is passed through (clamped to the valid range)");
    VP_ASSERT(g_rec.tid == 4242 && g_rec.sec == 1700000000u && g_rec.usec == 123456u, "thread id and time stamp are intact");
    if (g_rec.len > 0) VP_ASSERT(g_rec.first == 'x' && (g_rec.len == 1 || g_rec.last == 'y'), "the record carries the whole (cut) text: first and last byte as formatted");
    VP_ASSERT(LogRemovePrintfFunc(id), "sink removed");
    g_rec.n = 0; LogPrintfFunc("mod", "fn", "f.cpp", 1, 3, 1, "%s", "x");
    VP_ASSERT(g_rec.n == 0, "no record after the sink was removed");
    VP_REACH("printf_len");
}
// (2) unformatted path (LogPuts) with every length around the maximum
extern "C" void h_puts_len() {
    unsigned long maxlen = 6; LogSetMaxLength(maxlen);
    uint32_t id = LogAddPrintfFunc(recorder, nullptr);
    char text[12]; unsigned n = nondet_uchar(); VP_ASSUME(n <= 10); n = (unsigned)vp_concretize(n);
    for (unsigned i = 0; i < n; i++) text[i] = 'a' + i; text[n] = 0;
    g_rec.n = 0; LogPrintfFunc("m", "f", "x.cpp", 5, 4, 0, text);
    VP_ASSERT(g_rec.n == 1 && g_rec.len == (n <= maxlen ? n : maxlen) && g_rec.trunc == (n > maxlen), "unformatted text: cut to exactly the maximum and marked iff longer");
    LogRemovePrintfFunc(id); VP_REACH("puts_len");
}
// (3) sink filter: global and per-module thresholds, set / reset / unset in any order
struct ProbeSink : log::Sink { int got = 0; int last_level = -1; void onLogFrontEnd(const LogContent *c) override { got++; last_level = c->level; } };
extern "C" void h_sink_filter() {
    LogSetMaxLength(100);
    ProbeSink sink; VP_ASSERT(sink.enable(), "enable"); VP_ASSERT(!sink.enable(), "second enable is a no-op");
    int def = LOG_LEVEL_MAX; bool has_a = false; int lvl_a = 0;          // reference filter state
    for (int step = 0; step < 3; step++) {
        unsigned op = nondet_uchar(); VP_ASSUME(op <= 3); op = (unsigned)vp_concretize(op);
        int lv = (int)nondet_uchar(); VP_ASSUME(lv <= 7);
        if (op == 0) { sink.setLevel(lv); def = lv; }
        else if (op == 1) { sink.setLevel("a", lv); has_a = true; lvl_a = lv; }
        else if (op == 2) { sink.unsetLevel("a"); has_a = false; }
        else { sink.setLevel("", lv); def = lv; }                              // empty module name = global level
    }
    int level = (int)nondet_uchar(); VP_ASSUME(level <= 7); bool mod_a = nondet_bool();
    sink.got = 0;
    LogPrintfFunc(mod_a ? "a" : "b", "f", "x.cpp", 1, level, 0, "hello");
    bool pass = level <= ((mod_a && has_a) ? lvl_a : def);
    VP_ASSERT(sink.got == (pass ? 1 : 0), "a call whose level passes the sink's global or per-module threshold produces exactly one record, any other call none");
    sink.disable(); sink.got = 0;
    LogPrintfFunc("a", "f", "x.cpp", 1, 0, 0, "hello");
    VP_ASSERT(sink.got == 0, "a disabled sink receives nothing");
    VP_REACH("sink_filter");
}
// (4) two threads: sink callbacks never overlap, every call is delivered, each thread's records keep their order
static int g_seq[8], g_nseq;
static void seq_recorder(const LogContent *c, void *) { if (g_in_cb) g_overlap = 1; g_in_cb = 1; if (g_nseq < 8) g_seq[g_nseq] = c->line; g_nseq++; g_in_cb = 0; }
extern "C" void h_two_threads() {
    LogSetMaxLength(100); g_nseq = 0; g_overlap = 0; g_in_cb = 0;
    uint32_t id = LogAddPrintfFunc(seq_recorder, nullptr);
    std::thread t([] { LogPrintfFunc("m", "f", "x.cpp", 11, 3, 0, "t1"); LogPrintfFunc("m", "f", "x.cpp", 12, 3, 0, "t2"); });
    LogPrintfFunc("m", "f", "x.cpp", 21, 3, 0, "m1"); LogPrintfFunc("m", "f", "x.cpp", 22, 3, 0, "m2");
    t.join();
    VP_ASSERT(!g_overlap, "records issued concurrently are never interleaved: the sink is never entered by two threads at once");
    VP_ASSERT(g_nseq == 4, "every call produces exactly one record");
    int p11 = -1, p12 = -1, p21 = -1, p22 = -1; for (int i = 0; i < 4; i++) { if (g_seq[i] == 11) p11 = i; if (g_seq[i] == 12) p12 = i; if (g_seq[i] == 21) p21 = i; if (g_seq[i] == 22) p22 = i; }
    VP_ASSERT(p11 >= 0 && p12 > p11 && p21 >= 0 && p22 > p21, "each thread's records keep their order");
    LogRemovePrintfFunc(id); VP_REACH("two_threads");
}
