// C10: asynchronous pipe — lossless, ordered, contiguous appends; sink callbacks never overlap; cleanup flushes and returns; no data races.
// The real util/async_pipe.cpp runs under engine B's thread scheduler: every interleaving at synchronisation granularity within the
// preemption bound, timed waits may expire nondeterministically, lockset race detection on all shared accesses.
#include "vp.h"
#include "util/async_pipe.cpp"
#include <thread>
using tbox::util::AsyncPipe;
#ifndef BUFSZ
#define BUFSZ 2
#endif
#ifndef MAXNUM
#define MAXNUM 1
#endif
#ifndef PRODUCERS
#define PRODUCERS 1
#endif
static unsigned char sink[32]; static unsigned long sink_len; static int in_cb; static int overlap;
extern "C" void h_pipe() {
    sink_len = 0; in_cb = 0; overlap = 0;
    AsyncPipe pipe;
    AsyncPipe::Config cfg; cfg.buff_size = BUFSZ; cfg.buff_min_num = 1; cfg.buff_max_num = MAXNUM; cfg.interval = 1000;
    pipe.setCallback([](const void *p, size_t n) {
        if (in_cb) overlap = 1;
        in_cb = 1;
        for (size_t i = 0; i < n && sink_len < 32; i++) sink[sink_len++] = ((const unsigned char *)p)[i];
        in_cb = 0; });
    VP_ASSERT(pipe.initialize(cfg), "initialize");
#ifdef FIXEDN
    unsigned n0 = 3;
#else
    unsigned n0 = nondet_uchar(); VP_ASSUME(n0 >= 1 && n0 <= 3);     // append smaller than / equal to / larger than a buffer
#endif
    static const unsigned char A[3] = {1, 2, 3}, Bq[2] = {11, 12};
#if PRODUCERS == 2
    std::thread other([&pipe] { pipe.append(Bq, 2); });
#endif
    pipe.append(A, n0);
#ifdef FIXEDN
    unsigned n1 = 0;
#else
    unsigned n1 = nondet_uchar(); VP_ASSUME(n1 <= 2);                // a second append by the same producer (order within a producer)
#endif
    static const unsigned char C[2] = {4, 5};
    if (n1) pipe.append(C, n1);
#if PRODUCERS == 2
    other.join();
#endif
    pipe.cleanup();                                                   // a hang here is reported by the engine as a deadlock
    unsigned long want = n0 + n1 + (PRODUCERS == 2 ? 2 : 0);
    VP_ASSERT(!overlap, "sink callbacks never overlap one another");
    VP_ASSERT(sink_len == want, "everything appended before cleanup began has been delivered when cleanup returns - nothing lost, nothing duplicated");
    // the delivered stream is an interleaving with every append contiguous and per-producer order kept
    unsigned long i = 0; bool seenA = false, seenB = (PRODUCERS != 2);
    while (i < sink_len) {
        if (sink[i] == 1 && !seenA) { for (unsigned k = 0; k < n0; k++) VP_ASSERT(sink[i + k] == A[k], "an append is delivered contiguously and in order");
                                     i += n0; for (unsigned k = 0; k < n1; k++) { /* C follows A in producer order but B may come in between */ } seenA = true; }
        else if (sink[i] == 4 && seenA) { for (unsigned k = 0; k < n1; k++) VP_ASSERT(sink[i + k] == C[k], "an append is delivered contiguously and in order"); i += n1; }
        else if (sink[i] == 11 && !seenB) { VP_ASSERT(sink[i + 1] == 12, "an append is delivered contiguously and in order"); i += 2; seenB = true; }
        else { VP_ASSERT(false, "delivered stream is not an interleaving of whole appends in producer order"); break; }
    }
    VP_REACH("pipe");
}

// second life: cleanup() then initialize() again on the same object; what is appended in the second life is delivered like in the first
extern "C" void h_pipe_relife() {
    sink_len = 0; in_cb = 0; overlap = 0;
    AsyncPipe pipe;
    AsyncPipe::Config cfg; cfg.buff_size = BUFSZ; cfg.buff_min_num = 1; cfg.buff_max_num = MAXNUM; cfg.interval = 1000;
    auto cb = [](const void *p, size_t n) { if (in_cb) overlap = 1; in_cb = 1; for (size_t i = 0; i < n && sink_len < 32; i++) sink[sink_len++] = ((const unsigned char *)p)[i]; in_cb = 0; };
    pipe.setCallback(cb);
    static const unsigned char A[2] = {1, 2}, B2[3] = {7, 8, 9};
    VP_ASSERT(pipe.initialize(cfg), "initialize");
    pipe.append(A, 2);
    pipe.cleanup();
    VP_ASSERT(sink_len == 2 && sink[0] == 1 && sink[1] == 2, "first life: everything appended before cleanup has been delivered when cleanup returns");
    VP_ASSERT(pipe.initialize(cfg), "initialize again after cleanup");
    pipe.setCallback(cb);                                             // cleanup() forgets the callback: it is registered again, as log::AsyncSink does on every enable
    unsigned n = nondet_uchar(); VP_ASSUME(n >= 1 && n <= 3);
    pipe.append(B2, n);
    pipe.cleanup();                                                   // a hang here is reported by the engine as a deadlock
    VP_ASSERT(!overlap, "sink callbacks never overlap one another");
    VP_ASSERT(sink_len == 2 + n, "second life: everything appended before cleanup has been delivered when cleanup returns - nothing lost, nothing from the first life repeated");
    for (unsigned i = 0; i < n; i++) VP_ASSERT(sink[2 + i] == B2[i], "second life: delivered in order");
    VP_REACH("pipe_relife");
}
