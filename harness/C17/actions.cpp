// C17: action trees finish once with the documented result; nothing is left running; stop/reset never deliver stale notifications.
// Real flow::Action / AssembleAction / SequenceAction / ParallelAction / DummyAction on a fake loop + fake timers (engine B).
#include "vp.h"
#define TRACE_MODULE_ID "vp"
#include "vp_stubs.hpp"
#include "vp_fakes.hpp"
#include <tbox/base/json.hpp>
#include "flow/action.cpp"
#include "flow/actions/assemble_action.cpp"
#include "flow/actions/sequence_action.cpp"
#include "flow/actions/parallel_action.cpp"
#include "flow/actions/dummy_action.cpp"
#include "flow/actions/repeat_action.cpp"
#include "flow/actions/loop_action.cpp"
#include "util/variables.cpp"
using namespace tbox; using namespace tbox::flow;
#ifndef NL
#define NL 3
#endif
enum Out { O_SUCC, O_FAIL, O_BLOCK, O_NEVER };
static DummyAction *leaf[NL]; static unsigned char outc[NL]; static bool inline_done[NL];   // outcome of each leaf; delivered inside onStart or on a later pass
static int starts[NL], stops[NL], start_seq[NL], seq; static bool underway_at_start[NL];
static int root_finish, root_result, root_block;
static void deliver(int i) { if (outc[i] == O_SUCC) leaf[i]->emitFinish(true); else if (outc[i] == O_FAIL) leaf[i]->emitFinish(false); else if (outc[i] == O_BLOCK) leaf[i]->emitBlock(Action::Reason(1)); }
#ifndef KIND
#define KIND 0          /* 0 sequence, 1 parallel */
#endif
extern "C" void h_tree() {
    vpf::FakeLoop loop; seq = 0; root_finish = 0; root_result = -1; root_block = 0;
    unsigned mode = nondet_uchar(); VP_ASSUME(mode <= 2);
#if KIND == 0
    SequenceAction root(loop, (SequenceAction::Mode)mode);
#else
    ParallelAction root(loop, (ParallelAction::Mode)mode);
#endif
    for (int i = 0; i < NL; i++) {
        leaf[i] = new DummyAction(loop); starts[i] = stops[i] = 0; start_seq[i] = -1; underway_at_start[i] = false;
        unsigned o = nondet_uchar(); VP_ASSUME(o <= 3); outc[i] = (unsigned char)o; inline_done[i] = nondet_bool();
        leaf[i]->setStartCallback([i] { starts[i]++; start_seq[i] = seq++; if (inline_done[i]) deliver(i); });
        leaf[i]->setStopCallback([i] { stops[i]++; });
        VP_ASSERT(root.addChild(leaf[i]) >= 0, "addChild");
    }
    root.setFinishCallback([](bool ok, const Action::Reason &, const Action::Trace &) { root_finish++; root_result = ok ? 1 : 0; });
    root.setBlockCallback([](const Action::Reason &, const Action::Trace &) { root_block++; });
    bool use_timeout = nondet_bool();
    if (use_timeout) root.setTimeout(std::chrono::milliseconds(500));      // a timeout on the root (its timer is a fake the harness can fire)
    VP_ASSERT(root.start(), "root starts");
    // loop passes; late leaves complete on a symbolic pass; one control call (none / stop / pause+resume / reset) at a symbolic pass
    // ctl 4/5: pause AFTER this pass's completions were emitted (so a child's finish notification reaches a paused composite and is parked);
    //          one pass later: resume (5) or resume-pause-resume back to back (4)
#ifdef CTL
    unsigned ctl = CTL;                                               // one solver run per control script
#else
    unsigned ctl = nondet_uchar(); VP_ASSUME(ctl <= 5);
#endif
    unsigned ctl_at = nondet_uchar(); VP_ASSUME(ctl_at <= 2);
    bool stopped = false, was_reset = false; int finish_at_stop = 0;
    for (unsigned pass = 0; pass < 4; pass++) {
        if (pass == ctl_at) {
            if (ctl == 1) { root.stop(); stopped = true; finish_at_stop = root_finish; }
            else if (ctl == 2) { if (root.pause()) root.resume(); }
            else if (ctl == 3) { root.reset(); was_reset = true; finish_at_stop = root_finish; }
        }
        if (pass == ctl_at + 1 && ctl >= 4 && root.state() == Action::State::kPause) {
            root.resume();
            if (ctl == 4) { if (root.pause()) root.resume(); }
        }
        for (int i = 0; i < NL; i++) if (!inline_done[i] && leaf[i]->state() == Action::State::kRunning) { inline_done[i] = true; deliver(i); inline_done[i] = false; if (outc[i] != O_BLOCK) outc[i] = outc[i]; }
        if (pass == ctl_at && ctl >= 4) root.pause();
        for (int k = 0; k < 8 && !loop.next_q.empty(); k++) loop.pass();
    }
    for (int i = 0; i < NL; i++) VP_ASSERT(starts[i] <= 1 || was_reset, "no child is started again while a previous run of it is under way / after it finished in the same run");
    if (stopped || was_reset) {
        // time passes: whatever timer is still armed expires now
        for (size_t t = 0; t < loop.timers.size(); t++) if (loop.timers[t]->on) loop.timers[t]->fire();
        for (int k = 0; k < 8 && !loop.next_q.empty(); k++) loop.pass();
        VP_ASSERT(root_finish == finish_at_stop, "a stopped or reset action never delivers a stale finish notification");
        if (was_reset) { VP_ASSERT(root.state() == Action::State::kIdle, "a reset tree is idle like a freshly built one");
            for (int i = 0; i < NL; i++) VP_ASSERT(leaf[i]->state() == Action::State::kIdle, "reset reaches every descendant: each is idle like a freshly built one"); }
        for (int i = 0; i < NL; i++) VP_ASSERT(!leaf[i]->isUnderway(), "after stop / reset no descendant is left running or paused");
        VP_ASSERT(!root.isUnderway(), "root is not under way after stop / reset");
    } else if (root.state() == Action::State::kFinished) {
        VP_ASSERT(root_finish == 1, "the root finishes exactly once");
        for (int i = 0; i < NL; i++) VP_ASSERT(!leaf[i]->isUnderway(), "after the root finished no descendant is left running or paused");
#if KIND == 0
        // documented meaning of the sequence: children one after another in order; kAnyFail stops at the first failure (fail), kAnySucc at the first
        // success (succeed); otherwise all children run and the sequence ends with the result of the last child
        int expect = -1; int last = -1;
        for (int i = 0; i < NL; i++) { if (outc[i] > O_FAIL) break; last = i; bool ok = outc[i] == O_SUCC; if (mode == 1 && !ok) { expect = 0; break; } if (mode == 2 && ok) { expect = 1; break; } if (i == NL - 1) expect = ok ? 1 : 0; }
        VP_ASSERT(expect != -1 && root_result == expect, "the sequence finishes with the documented result for its mode");
        for (int i = 0; i < NL; i++) VP_ASSERT((starts[i] == 1) == (i <= last), "sequence children are started in order and only up to the deciding child");
        for (int i = 0; i + 1 <= last; i++) VP_ASSERT(start_seq[i] < start_seq[i + 1], "sequence children start in registration order");
#endif
    } else {
        VP_ASSERT(root_finish == 0, "no finish notification while the root has not finished");
    }
    if (root.isUnderway()) root.stop();
    // second life: reset, then run again with every leaf succeeding inside its start hook - must behave like a freshly built tree
    root.reset();
    VP_ASSERT(root.state() == Action::State::kIdle, "a reset tree is idle like a freshly built one");
    for (int i = 0; i < NL; i++) { VP_ASSERT(leaf[i]->state() == Action::State::kIdle, "reset reaches every descendant: each is idle like a freshly built one"); starts[i] = 0; outc[i] = O_SUCC; inline_done[i] = true; }
    for (int k = 0; k < 8 && !loop.next_q.empty(); k++) loop.pass();
    root_finish = 0; root_result = -1;
    VP_ASSERT(root.start(), "a reset tree starts again");
    for (int k = 0; k < 16 && !loop.next_q.empty(); k++) loop.pass();
    VP_ASSERT(root.state() == Action::State::kFinished && root_finish == 1 && root_result == 1, "the second run of a reset tree finishes exactly once, successfully when every leaf succeeds");
#if KIND == 0
    for (int i = 0; i < NL; i++) VP_ASSERT(starts[i] == ((mode == 2 && i > 0) ? 0 : 1), "the second run starts the children a fresh tree would start, once each");
#else
    for (int i = 0; i < NL; i++) VP_ASSERT(starts[i] == 1 || (mode == 2 && starts[i] <= 1), "the second run starts every child at most once (all of them unless the first success already decides)");
#endif
    VP_REACH("tree");
    for (int i = 0; i < NL; i++) { /* children are owned (deleted) by the root */ }
}

// ---- Repeat / Loop over one probe leaf: the documented loop meaning
//   Repeat(n, kNoBreak): for (i = 0; i < n; ++i) action();           -> success after n rounds
//   Repeat(n, kBreakFail): for (i = 0; i < n && action(); ++i);      -> the failing round's result, else success after n rounds
//   Repeat(n, kBreakSucc): for (i = 0; i < n && !action(); ++i);     -> the succeeding round's result, else success after n rounds
//   Loop(kUntilFail): while (action());   Loop(kUntilSucc): while (!action());   (kForever never finishes by itself)
#ifndef RMAX
#define RMAX 4
#endif
static unsigned char r_out[RMAX + 1]; static bool r_inline[RMAX + 1]; static int r_round; static DummyAction *r_leaf; static int r_underway_at_start;
static void r_deliver() { int k = r_round - 1; if (k > RMAX) k = RMAX; r_leaf->emitFinish(r_out[k] == O_SUCC); }
extern "C" void h_repeat() {
    vpf::FakeLoop loop; root_finish = 0; root_result = -1; r_round = 0; r_underway_at_start = 0;
    bool is_loop = nondet_bool();
    unsigned mode = nondet_uchar(); VP_ASSUME(mode <= 2);
    unsigned times = nondet_uchar(); VP_ASSUME(times >= 1 && times <= 3);       // (times == 0 means "forever" in this library: the repository's own test RepeatAction.FunctionActionForeverNoBreak relies on it)
    times = (unsigned)vp_concretize(times);
    for (int i = 0; i <= RMAX; i++) { r_out[i] = nondet_bool() ? O_SUCC : O_FAIL; r_inline[i] = nondet_bool(); }
    if (is_loop) { VP_ASSUME(mode != 0); r_out[RMAX] = (mode == 1) ? O_FAIL : O_SUCC; }       // the loop is guaranteed to end within RMAX+1 rounds (mode 1 = until fail, 2 = until succ)
    r_leaf = new DummyAction(loop);
    r_leaf->setStartCallback([] { r_round++; if (r_round <= RMAX + 1 && r_inline[r_round - 1 > RMAX ? RMAX : r_round - 1]) r_deliver(); });
    Action *root;
    if (is_loop) root = new LoopAction(loop, r_leaf, (LoopAction::Mode)mode); else root = new RepeatAction(loop, r_leaf, times, (RepeatAction::Mode)mode);
    root->setFinishCallback([](bool ok, const Action::Reason &, const Action::Trace &) { root_finish++; root_result = ok ? 1 : 0; });
    VP_ASSERT(root->start(), "root starts");
    for (int pass = 0; pass < 4 * (RMAX + 2) && root->state() != Action::State::kFinished; pass++) {
        if (r_leaf->state() == Action::State::kRunning) r_deliver();                         // late completion of the current round
        for (int k = 0; k < 8 && !loop.next_q.empty(); k++) loop.pass();
    }
    for (int k = 0; k < 8 && !loop.next_q.empty(); k++) loop.pass();                         // the finish notification is delivered by the loop
    // reference
    int exp_rounds = 0, exp_result = 1;
    if (is_loop) { for (int i = 0; i <= RMAX; i++) { exp_rounds++; bool ok = r_out[i] == O_SUCC; if ((mode == 2 && ok) || (mode == 1 && !ok)) { exp_result = ok; break; } } }
    else { for (unsigned i = 0; i < times; i++) { exp_rounds++; bool ok = r_out[i] == O_SUCC; if ((mode == 2 && ok) || (mode == 1 && !ok)) { exp_result = ok; break; } } }
    VP_ASSERT(root->state() == Action::State::kFinished && root_finish == 1, "the composite finishes exactly once");
    VP_ASSERT(r_round == exp_rounds, "the child is run exactly as many rounds as the documented loop meaning says (never restarted while a round is under way)");
    VP_ASSERT(root_result == exp_result, "the composite finishes with the result the documented loop meaning gives");
    VP_ASSERT(!r_leaf->isUnderway(), "after the root finished no descendant is left running");
    delete root;
    VP_REACH("repeat");
}
