// Native replay runtime: the harness source is compiled with g++ -fsanitize=address,undefined and linked with this file.
// nondet_* return the values of the solver's model in call order (file given as argv[1], one decimal value per line).
#include <cstdio>
#include <cstdlib>
#include <cstring>
#include <vector>
#include <exception>
#include <typeinfo>
#include <unistd.h>
// output goes through fputs only: harnesses may define printf/puts/vsnprintf/write themselves (capturing seams)
static void emit(const char *a, const char *b = "", const char *c = "", const char *d = "") { fputs(a, stdout); fputs(b, stdout); fputs(c, stdout); fputs(d, stdout); fputs("\n", stdout); fflush(stdout); }
static const char *dec(unsigned long v) { static char buf[24]; int k = 23; buf[k] = 0; do { buf[--k] = (char)('0' + v % 10); v /= 10; } while (v); return buf + k; }
static std::vector<unsigned long> g_vals; static size_t g_idx; static bool g_exhausted;
static unsigned long nextv() { if (g_idx < g_vals.size()) return g_vals[g_idx++]; g_exhausted = true; return 0; }
extern "C" {
unsigned char  nondet_uchar() noexcept { return (unsigned char)nextv(); }
unsigned short nondet_ushort() noexcept { return (unsigned short)nextv(); }
unsigned int   nondet_uint() noexcept { return (unsigned int)nextv(); }
unsigned long  nondet_ulong() noexcept { return nextv(); }
bool           nondet_bool() noexcept { return nextv() & 1; }
void __CPROVER_assume(bool c) noexcept { if (!c) { emit("REPLAY-ASSUME-FAILED"); _exit(3); } }
void __CPROVER_assert(bool c, const char *msg) noexcept {
    if (!strncmp(msg, "WITNESS:", 8)) return;
    if (!c) { emit("REPLAY-ASSERT-FAILED: ", msg); _exit(1); }
}
void vp_global_ctors() noexcept {}
bool vp_false() noexcept { return false; }
unsigned long vp_concretize(unsigned long v) noexcept { return v; }
void vp_note(const char *tag, unsigned long v) noexcept { emit("NOTE ", tag, " ", dec(v)); }
void VP_ENTRY();
}
int main(int argc, char **argv) {
    if (argc > 1) { FILE *f = fopen(argv[1], "r"); unsigned long v; if (!f) { perror("values"); return 4; } while (fscanf(f, "%lu", &v) == 1) g_vals.push_back(v); fclose(f); }
    alarm(20);   // watchdog: a hang is a reproduced 'never returns'
    try { VP_ENTRY(); }
    catch (std::exception &e) { emit("REPLAY-EXCEPTION: ", typeid(e).name(), ": ", e.what()); _exit(1); }
    catch (...) { emit("REPLAY-EXCEPTION: unknown"); _exit(1); }
    emit("REPLAY-OK", g_exhausted ? " (values exhausted)" : "");
    _exit(0);
}
