#!/usr/bin/env python3
"""regenerate /verif/MANIFEST.json from props/*.py (claimed) and notapplicable.json (reasons for the rest)"""
import os, sys, json, importlib
HERE = os.path.dirname(os.path.abspath(__file__)); VERIF = os.path.dirname(HERE)
sys.path.insert(0, HERE); sys.path.insert(0, VERIF)
props = [json.loads(l) for l in open(os.path.join(VERIF, 'properties.jsonl'))]
na = json.load(open(os.path.join(VERIF, 'notapplicable.json')))
hooks = json.load(open(os.path.join(VERIF, 'hooks.json')))
checks = []; not_app = []; serves = {'ir2c+cbmc': set(), 'symir+z3': set()}
for p in props:
    pid = p['id']
    if os.path.exists(os.path.join(VERIF, 'props', pid + '.py')) and pid not in na.get('force', {}):
        mod = importlib.import_module('props.' + pid); M = mod.META
        engs = sorted({j.engine for j in mod.JOBS})
        for e in engs: serves[{'A': 'ir2c+cbmc', 'B': 'symir+z3'}[e]].add(pid)
        checks.append({
            'property_id': pid,
            'quick_cmd': './check %s --tier quick' % pid,
            'thorough_cmd': './check %s --tier thorough' % pid,
            'evidence_file': 'evidence/%s.json' % pid,
            'replay_cmd_template': './check %s --replay {path}' % pid,
            'engine': ' + '.join({'A': 'ir2c+cbmc', 'B': 'symir+z3'}[e] for e in engs) + ' + native-replay',
            'level_claimed': {'category': 'other',
                              'text': M.get('level_text') or ('Bounded solver verdict on the real code: ' + M['explanation']),
                              'design_ref': M.get('design_ref', 'DESIGN.md section 2, ' + pid)},
            'level_note': 'Bounds: %s. Outside the claim: %s. Assumes: %s. Trusted base: %s' % (M.get('bounds', ''), M.get('outside', ''), '; '.join(M.get('assumptions', [])), '; '.join(M.get('trusted_base', []))),
            'technique': M.get('technique', 'bounded symbolic execution of the clang LLVM IR of the real translation units; SMT/SAT solver verdict (cbmc / z3), counterexamples replayed natively'),
        })
    else:
        not_app.append({'property_id': pid, 'reason': na['reasons'].get(pid, 'check under construction; not claimed in this commit')})
m = {
    'version': 1,
    'setup_cmd': './engine/setup.sh',
    'hooks': hooks,
    'engines': [
        {'name': 'ir2c+cbmc', 'path': 'engine/ir2c.py', 'serves_properties': sorted(serves['ir2c+cbmc']), 'kind_free_text': 'LLVM-IR -> C translator feeding CBMC 6.11 bounded model checking (SAT; cvc5 bv-as-int for div/mod kernels)'},
        {'name': 'symir+z3', 'path': 'engine/symir.py', 'serves_properties': sorted(serves['symir+z3']), 'kind_free_text': 'path-wise symbolic interpreter of LLVM-14 IR (flat byte memory, exceptions, threads/ucontext models); every branch and assertion decided by z3'},
        {'name': 'native-replay', 'path': 'engine/replay_rt.cpp', 'serves_properties': sorted(serves['ir2c+cbmc'] | serves['symir+z3']), 'kind_free_text': 'g++ -fsanitize=address,undefined build of the same harness fed with the solver model; a VIOLATION needs a reproduced counterexample'},
    ],
    'checks': checks,
    'notes': 'Every check rebuilds LLVM IR from /repo working tree on each run (harness #includes the real .cpp). Exit 0 = all obligations discharged; 1 = VIOLATION; 2 = inconclusive/engine error (never reported as success). Known findings: known_findings.json.',
    'not_applicable': not_app,
}
json.dump(m, open(os.path.join(VERIF, 'MANIFEST.json'), 'w'), indent=1)
print('claimed:', [c['property_id'] for c in checks]); print('not claimed:', [n['property_id'] for n in not_app])
