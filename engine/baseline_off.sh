#!/bin/bash
# builds /repo with the guard OFF in a scratch directory and runs the repository's test suite (ctest), then removes the scratch build
set -e
B=$(mktemp -d /tmp/vp_baseline_XXXX)
trap 'rm -rf "$B"' EXIT
cmake -S /repo -B "$B" -G Ninja -DCMAKE_BUILD_TYPE=RelWithDebInfo -DTBOX_ENABLE_TEST=ON -DCMAKE_ENABLE_TEST=ON "-DCMAKE_CXX_FLAGS=-Wno-error -Wno-error=use-after-free" > "$B/conf.log" 2>&1
cmake --build "$B" -j"$(nproc)" > "$B/build.log" 2>&1 || { tail -20 "$B/build.log"; exit 1; }
ctest --test-dir "$B" -j8 --timeout 900 --output-junit "$B/junit.xml" || true
