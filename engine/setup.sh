#!/bin/bash
# offline setup: byte-compile the engines and run the engine self-tests. Builds nothing from /repo.
set -e
cd "$(dirname "$0")/.."
python3-vt -m py_compile engine/ir2c.py engine/symir.py engine/vpdrv.py
python3-vt -c "import z3; print('z3', z3.get_version_string())"
cbmc --version
[ -x engine/selftest.sh ] && engine/selftest.sh || true
echo setup ok
