#!/usr/bin/env python3
"""
symir: PROTOTYPE path-wise symbolic executor for LLVM-14 IR (KLEE-style), z3 as the deciding solver.
Flat memory with concrete object base addresses; bytes are ints, z3 8-bit terms, or UNDEF.
Feasibility of every symbolic branch is decided by z3; assertions are checked by z3 on every path.
"""
import sys, bisect, time, struct
sys.path.insert(0, __import__('os').path.dirname(__import__('os').path.abspath(__file__)))
import ir2c
from ir2c import TInt, TPtr, TArr, TStruct, TNamed, TFloat, TVoid, TFunc, TOther
import z3

class NoResult: pass
NORESULT = NoResult()
class Undef:
    def __repr__(s): return 'UNDEF'
UNDEF = Undef()

class Violation(Exception):
    pass
class Unsupported(Exception):
    pass
class PathEnd(Exception):
    pass

def is_sym(v): return isinstance(v, z3.ExprRef)
def z3_vars(t):
    seen = set(); out = []; stack = [t]
    while stack:
        x = stack.pop()
        if x.get_id() in seen: continue
        seen.add(x.get_id())
        if z3.is_const(x) and x.decl().kind() == z3.Z3_OP_UNINTERPRETED: out.append(x)
        else: stack.extend(x.children())
    return out

class Frame:
    __slots__ = ('fn', 'regs', 'block', 'prev', 'ip', 'ret_to', 'allocas')
    def __init__(s, fn):
        s.fn = fn; s.regs = {}; s.block = fn.entry; s.prev = None; s.ip = 0; s.ret_to = None; s.allocas = []

class Thread:
    def __init__(s, tid):
        s.tid = tid; s.stack = []; s.blocked = None; s.finished = False; s.phase = None; s.timeouts = 0; s.locks = frozenset(); s.ctx_cur = None; s.ctx_root = None
    def copy(s):
        n = Thread(s.tid); n.blocked = s.blocked; n.finished = s.finished; n.phase = s.phase; n.timeouts = s.timeouts; n.locks = s.locks; n.ctx_cur = s.ctx_cur; n.ctx_root = s.ctx_root
        for f in s.stack:
            g = Frame(f.fn); g.regs = dict(f.regs); g.block = f.block; g.prev = f.prev; g.ip = f.ip; g.ret_to = f.ret_to; g.allocas = list(f.allocas)
            n.stack.append(g)
        return n

class State:
    @property
    def stack(s): return s.threads[s.cur].stack
    @stack.setter
    def stack(s, v): s.threads[s.cur].stack = v
    def __init__(s):
        s.threads = [Thread(0)]; s.cur = 0; s.preempt = 0; s.cv = {}; s.sched_log = []; s.er = {}; s.ctx = {}
        s.mem = {}          # addr -> byte
        s.objs = {}         # base -> (size, kind, alive)
        s.bases = []        # sorted
        s.next_base = 0x10000
        s.pc = []           # path condition (z3 bools)
        s.exc = None        # (obj, type) while unwinding
        s.caught = []
        s.trace = []
        s.steps = 0
        s.nd_log = []; s.notes = []
    def fork(s):
        n = State.__new__(State)
        n.mem = dict(s.mem); n.objs = dict(s.objs); n.bases = list(s.bases); n.next_base = s.next_base
        n.threads = [t.copy() for t in s.threads]; n.cur = s.cur; n.preempt = s.preempt
        n.cv = {k: (set(v[0]), set(v[1])) for k, v in s.cv.items()}; n.sched_log = list(s.sched_log); n.er = dict(s.er)
        n.ctx = {}
        for k, (stk, link) in s.ctx.items():
            ns = []
            for f in stk:
                g = Frame(f.fn); g.regs = dict(f.regs); g.block = f.block; g.prev = f.prev; g.ip = f.ip; g.ret_to = f.ret_to; g.allocas = list(f.allocas)
                ns.append(g)
            n.ctx[k] = (ns, link)
        for k, v in s.__dict__.items():       # model-private extras (errno cell, virtual clock, stream registry, ...)
            if k not in n.__dict__ and k not in ('pc', 'exc', 'caught', 'trace', 'steps'):
                n.__dict__[k] = dict(v) if isinstance(v, dict) else list(v) if isinstance(v, list) else set(v) if isinstance(v, set) else v
        n.nd_log = list(s.nd_log); n.notes = list(s.notes)
        s.hb_own = False; n.hb_own = False
        n.mdl = getattr(s, 'mdl', None); n.mdl_n = getattr(s, 'mdl_n', -1); n.mdl_alt = getattr(s, 'mdl_alt', None); n.mdl_alt_n = getattr(s, 'mdl_alt_n', -1)
        n.pc = list(s.pc); n.exc = s.exc; n.caught = list(s.caught); n.trace = list(s.trace); n.steps = s.steps
        return n

class Engine:
    def __init__(s, module, models=None):
        s.m = module
        s.models = dict(BUILTIN_MODELS)
        if models: s.models.update(models)
        s.solver = z3.Solver(); s.sol_stack = []; s.portfolio_s = 150      # (z3 'timeout' costs a timer thread per check: only set on request, see --z3-timeout)
        s.gaddr = {}        # global name -> address
        s.faddr = {}        # function name -> address ; reverse
        s.addr2f = {}
        s.layout = ir2c.Emitter(module, {})
        s.stats = {'paths': 0, 'forks': 0, 'solver_calls': 0, 'solver_time': 0.0, 'instrs': 0}
        s.nsym = 0
        s.violations = []
        s.max_depth = 600; s.fn_seen = set(); s.models_used = set(); s.fork_sites = {}; s.max_fork_width = 4096; s.undef_syms = set()
        s.max_steps = 2000000; s.max_paths = 200000; s.deadline = time.time() + 3600; s.sample = None; s.reached = set()
        s.races = {}; s.racy_points = set()
        s.all_syms = []
        s.sweep_mode = None; s.sweep_tab = {}; s.sweep_reps = []; s.sweep_assign = None
        s.max_preempt = int(__import__("os").environ.get("VP_P", "1")); s.max_timeouts = int(__import__("os").environ.get("VP_T", "1"))

    # ---------- solver
    def feasible(s, st, cond):
        """is pc /\ cond satisfiable?  Decided by z3; a satisfying model is cached on the state and reused as a witness
        (a cached model that already satisfies cond proves satisfiability without a new query)."""
        if not isinstance(cond, z3.ExprRef): return bool(cond)
        cond = z3.simplify(cond)
        if z3.is_true(cond): return True
        if z3.is_false(cond): return False
        mdl = getattr(st, 'mdl', None)
        if mdl is not None and len(st.pc) == getattr(st, 'mdl_n', -1):
            try:
                if z3.is_true(mdl.eval(cond, model_completion=True)):
                    s.stats['cache_hits'] = s.stats.get('cache_hits', 0) + 1
                    return True
            except z3.Z3Exception: pass
        t = time.time()
        s.sync_solver(st)
        s.solver.push()
        s.solver.add(cond)
        r = s.solver.check()
        if r == z3.sat:
            st.mdl_alt = s.solver.model(); st.mdl_alt_n = len(st.pc)    # model of pc /\ cond: becomes the state's model if cond is appended next
        s.solver.pop()
        s.stats['solver_calls'] += 1; s.stats['solver_time'] += time.time() - t
        if r == z3.unknown:
            r = s.portfolio(st, cond)
        return r == z3.sat
    def portfolio(s, st, cond):
        """z3 in-process gave up within its time slice (typically div/mul-by-constant arithmetic): decide the same query with
        cvc5 --solve-bv-as-int=sum (integer encoding keeping the mod-2^k semantics) and the z3 CLI in parallel."""
        import subprocess, tempfile, os
        t0 = time.time()
        tmp = z3.Solver()
        for c in st.pc: tmp.add(c)
        tmp.add(cond)
        txt = '(set-logic QF_BV)\n' + tmp.to_smt2()
        for op in ('bvudiv', 'bvurem', 'bvsdiv', 'bvsrem', 'bvsmod'): txt = txt.replace(op + '_i', op).replace(op + '0', op)   # z3-internal 'divisor known non-zero' operators
        fd, path = tempfile.mkstemp(suffix='.smt2', prefix='vpq_'); os.write(fd, txt.encode()); os.close(fd)
        procs = [('cvc5-int', subprocess.Popen(['cvc5', '--solve-bv-as-int=sum', '--tlimit=%d' % (s.portfolio_s * 1000), path], stdout=subprocess.PIPE, stderr=subprocess.PIPE)),
                 ('z3-cli', subprocess.Popen([__import__('shutil').which('z3-new') or 'z3', '-T:%d' % s.portfolio_s, path], stdout=subprocess.PIPE, stderr=subprocess.PIPE))]
        verdict = None; who = None
        deadline = time.time() + s.portfolio_s + 5
        try:
            while procs and verdict is None and time.time() < deadline:
                for nm, p in list(procs):
                    if p.poll() is not None:
                        out = p.stdout.read().decode(errors='replace'); procs.remove((nm, p))
                        first = out.strip().split('\n')[0].strip() if out.strip() else ''
                        if '(error' in out:
                            s.stats.setdefault('portfolio_errors', []).append(nm + ': ' + out.strip()[:200]); continue
                        if first == 'unsat': verdict = z3.unsat; who = nm
                        elif first == 'sat': verdict = z3.sat; who = nm
                time.sleep(0.05)
        finally:
            for nm, p in procs:
                try: p.kill()
                except Exception: pass
            try: os.unlink(path)
            except Exception: pass
        s.stats['portfolio_calls'] = s.stats.get('portfolio_calls', 0) + 1
        s.stats['portfolio_time'] = s.stats.get('portfolio_time', 0.0) + time.time() - t0
        s.stats['solver_time'] += time.time() - t0
        if verdict is None: raise Unsupported('solver portfolio (z3, cvc5 bv-as-int, z3 CLI) returned no verdict within %ds' % s.portfolio_s)
        s.stats.setdefault('portfolio_by', {}); s.stats['portfolio_by'][who] = s.stats['portfolio_by'].get(who, 0) + 1
        return verdict
    def sync_solver(s, st):
        """keep the incremental solver's assertion stack equal to st.pc (one push level per constraint); states explored
        depth-first share long prefixes, so most queries only push the new condition"""
        stk = s.sol_stack; pc = st.pc
        k = 0; n = min(len(stk), len(pc))
        while k < n and stk[k] is pc[k]: k += 1
        if len(stk) > k:
            s.solver.pop(len(stk) - k); del stk[k:]
        for c in pc[k:]:
            s.solver.push(); s.solver.add(c); stk.append(c)
    def add_pc(s, st, cond):
        """append cond to the path condition (append-only per state), keeping a valid cached model when one is known"""
        keep = None
        n = len(st.pc)
        for mdl, mn in ((getattr(st, 'mdl', None), getattr(st, 'mdl_n', -1)), (getattr(st, 'mdl_alt', None), getattr(st, 'mdl_alt_n', -1))):
            if mdl is not None and mn == n:
                try:
                    if z3.is_true(mdl.eval(cond, model_completion=True)): keep = mdl; break
                except z3.Z3Exception: pass
        st.pc.append(cond)
        if keep is not None: st.mdl = keep; st.mdl_n = n + 1
        else: st.mdl = None; st.mdl_n = -1
        st.mdl_alt = None; st.mdl_alt_n = -1
    def model(s, st, extra=None):
        if extra is None and getattr(st, 'mdl', None) is not None and getattr(st, 'mdl_n', -1) == len(st.pc):
            return st.mdl
        s.sync_solver(st)
        s.solver.push()
        if extra is not None: s.solver.add(extra)
        r = s.solver.check()
        mdl = s.solver.model() if r == z3.sat else None
        s.solver.pop()
        if mdl is not None and extra is None: st.mdl = mdl; st.mdl_n = len(st.pc)
        return mdl

    # ---------- memory
    def alloc(s, st, size, kind):
        base = st.next_base
        st.next_base += ((size + 15) // 16 + 2) * 16
        st.objs[base] = (size, kind, True)
        bisect.insort(st.bases, base)
        return base
    def find_obj(s, st, addr):
        i = bisect.bisect_right(st.bases, addr) - 1
        if i < 0: return None
        b = st.bases[i]
        size, kind, alive = st.objs[b]
        return (b, size, kind, alive)
    def check_access(s, st, addr, n, what):
        if addr == 0: raise Violation('%s of null pointer' % what)
        o = s.find_obj(st, addr)
        if o is None or addr + n > o[0] + o[1]:
            raise Violation('%s out of bounds at 0x%x (+%d)' % (what, addr, n))
        if not o[3]: raise Violation('%s of freed object (use after free) at 0x%x' % (what, addr))
    def concretize(s, st, v, what='address'):
        """v symbolic -> list of (state, concrete) forks (bounded)"""
        if not is_sym(v): return v
        v = z3.simplify(v)
        if z3.is_bv_value(v): return v.as_long()
        mdl = s.model(st)
        c = mdl.eval(v, model_completion=True).as_long()
        # require uniqueness for prototype; otherwise fork lazily via exception
        if s.feasible(st, v != c):
            raise ForkOn(v == c)
        return c
    SYM_LOAD_MAX = 4096; SYM_STORE_MAX = 96; SYM_FORK_MAX = 64
    def resolve_sym(s, st, addr, n, what):
        """symbolic address: single-object resolution. The access must be inside ONE object for every model of the path
        condition, otherwise an out-of-bounds access is feasible -> violation (with the witness added to the path)."""
        mdl = s.model(st)
        if mdl is None: raise PathEnd()
        c = mdl.eval(addr, model_completion=True).as_long()
        o = s.find_obj(st, c) if c else None
        if c == 0 or o is None or c + n > o[0] + o[1]:
            s.add_pc(st, addr == c)
            raise Violation('%s out of bounds through symbolic address (e.g. 0x%x)' % (what, c))
        base, size, kind, alive = o
        off = z3.simplify(addr - base)
        oob = z3.UGT(off, size - n)
        if s.feasible(st, oob):
            # the pointer may also denote ANOTHER object (e.g. select between two objects): fork on the object, not a violation
            m2 = s.model(st, oob)
            c2 = m2.eval(addr, model_completion=True).as_long() if m2 is not None else 0
            o2 = s.find_obj(st, c2) if c2 else None
            if o2 is not None and o2[0] != base and c2 + n <= o2[0] + o2[1]:
                raise ForkOn(addr == c)          # pin the pointer to one concrete value per path (pointers are usually an ite of few addresses)
            s.add_pc(st, oob)
            raise Violation('%s out of bounds: symbolic offset can leave the %d-byte %s object' % (what, size, kind))
        if not alive: raise Violation('%s of freed object (use after free)' % what)
        return base, size, kind, off
    def try_pin(s, st, addr):
        """a symbolic address that has exactly one feasible value under the path condition is used as that concrete address"""
        mdl = s.model(st)
        if mdl is None: raise PathEnd()
        c = mdl.eval(addr, model_completion=True).as_long()
        if not s.feasible(st, addr != c): return c
        return addr
    def load_bytes(s, st, addr, n):
        if is_sym(addr):
            addr = z3.simplify(addr)
            if z3.is_bv_value(addr): addr = addr.as_long()
        if is_sym(addr): addr = s.try_pin(st, addr)
        if is_sym(addr):
            base, size, kind, off = s.resolve_sym(st, addr, n, 'read')
            if size > s.SYM_LOAD_MAX or (kind != 'const' and size <= s.SYM_FORK_MAX):
                # big objects, and small mutable buffers (a parser cursor over a short packet): one path per concrete offset keeps every
                # later term small; constant lookup tables keep the if-then-else encoding
                addr = s.concretize(st, addr)
            else:
                stride = 1
                if n > 1 and size % n == 0 and not s.feasible(st, z3.URem(off, n) != 0): stride = n
                ks = list(range(0, size - n + 1, stride))
                cells = [[st.mem.get(base + k + i, UNDEF) for i in range(n)] for k in ks]
                if any(b is UNDEF for row in cells for b in row):
                    # some candidate byte is uninitialised: only offsets that are feasible matter
                    ks2 = []; cells2 = []
                    for k, row in zip(ks, cells):
                        if any(b is UNDEF for b in row):
                            if s.feasible(st, off == k):
                                s.add_pc(st, off == k); raise Violation('read of uninitialised memory through symbolic address')
                            continue
                        ks2.append(k); cells2.append(row)
                    ks, cells = ks2, cells2
                    if not ks: raise PathEnd()
                out = []
                for i in range(n):
                    e = s.bv(cells[-1][i], 8)
                    for k, row in zip(reversed(ks[:-1]), reversed(cells[:-1])):
                        e = z3.If(off == k, s.bv(row[i], 8), e)
                    out.append(z3.simplify(e))
                s.stats['sym_loads'] = s.stats.get('sym_loads', 0) + 1
                return out
        s.check_access(st, addr, n, 'read')
        return [st.mem.get(addr + i, UNDEF) for i in range(n)]
    def store_bytes(s, st, addr, bs):
        if is_sym(addr):
            addr = z3.simplify(addr)
            if z3.is_bv_value(addr): addr = addr.as_long()
        if is_sym(addr): addr = s.try_pin(st, addr)
        if is_sym(addr):
            n = len(bs)
            base, size, kind, off = s.resolve_sym(st, addr, n, 'write')
            if kind == 'const': raise Violation('write to constant object')
            if size > s.SYM_STORE_MAX or any(b is UNDEF for b in bs): addr = s.concretize(st, addr)
            else:
                for k in range(0, size - n + 1):
                    for i in range(n):
                        old = st.mem.get(base + k + i, UNDEF)
                        if old is UNDEF:
                            if not s.feasible(st, off == k): continue            # this cell cannot be the target: stays uninitialised
                            if s.feasible(st, off != k): raise ForkOn(off == k)   # may or may not be the target: decide by forking
                            st.mem[base + k + i] = bs[i]
                        else:
                            st.mem[base + k + i] = z3.simplify(z3.If(off == k, s.bv(bs[i], 8), s.bv(old, 8)))
                s.stats['sym_stores'] = s.stats.get('sym_stores', 0) + 1
                return
        s.check_access(st, addr, len(bs), 'write')
        o = s.find_obj(st, addr)
        if o[2] == 'const': raise Violation('write to constant object')
        for i, b in enumerate(bs): st.mem[addr + i] = b
    def sizeof(s, t): return s.layout.sizeof_align(t)[0]
    def to_bytes(s, v, n):
        if v is UNDEF: return [UNDEF] * n
        if is_sym(v):
            # raw Extract terms (no simplification): from_bytes() recognises them and hands back the original word, so values that
            # travel through memory keep their word-level structure instead of being chopped into byte-wise arithmetic
            return [z3.Extract(8 * i + 7, 8 * i, v) for i in range(n)]
        return [(v >> (8 * i)) & 0xff for i in range(n)]
    def from_bytes(s, bs):
        if any(b is UNDEF for b in bs):
            if all(b is UNDEF for b in bs): return UNDEF
            # partially initialised word (e.g. a field and its padding loaded together): the uninitialised bytes become
            # tagged fresh symbols; using them in a branch / address is reported, masking them away is harmless
            bs = list(bs)
            for i, b in enumerate(bs):
                if b is UNDEF:
                    s.nsym += 1; v = z3.BitVec('undef%d' % s.nsym, 8); s.undef_syms.add(v.decl().name()); bs[i] = v
        if all(not is_sym(b) for b in bs):
            v = 0
            for i, b in enumerate(bs): v |= b << (8 * i)
            return v
        # all bytes are consecutive slices of ONE term: return that term (or one wider slice of it)
        b0 = bs[0]
        if is_sym(b0) and b0.decl().kind() == z3.Z3_OP_EXTRACT:
            src = b0.arg(0); lo0 = b0.params()[1]; ok = True
            for i, b in enumerate(bs):
                if not (is_sym(b) and b.decl().kind() == z3.Z3_OP_EXTRACT and b.arg(0).eq(src) and b.params()[1] == lo0 + 8 * i and b.params()[0] == lo0 + 8 * i + 7): ok = False; break
            if ok:
                if lo0 == 0 and src.size() == 8 * len(bs): return src
                return z3.Extract(lo0 + 8 * len(bs) - 1, lo0, src)
        parts = [b if is_sym(b) else z3.BitVecVal(b, 8) for b in bs]
        return z3.simplify(z3.Concat(*reversed(parts))) if len(parts) > 1 else parts[0]
    def load(s, st, addr, t):
        t = s.res(t)
        if isinstance(t, TStruct):
            out = []; off = 0
            for f, o in s.fields(t): out.append(s.load(st, addr + o, f))
            return out
        if isinstance(t, TArr):
            es = s.sizeof(t.el); return [s.load(st, addr + i * es, t.el) for i in range(t.n)]
        n = s.sizeof(t)
        v = s.from_bytes(s.load_bytes(st, addr, n))
        if v is UNDEF and isinstance(t, TInt) and t.bits >= 8:
            # an uninitialised integer word becomes a TAGGED fresh symbol: masking it away (bit-fields, std::vector<bool> words) is
            # harmless, while a branch / address that really depends on it is reported as an uninitialised use
            s.nsym += 1; v = z3.BitVec('undef%d' % s.nsym, t.bits); s.undef_syms.add(v.decl().name())
        if isinstance(t, TInt) and t.bits == 1 and not is_sym(v) and v is not UNDEF: v &= 1
        if isinstance(t, TInt) and t.bits == 1 and is_sym(v): v = z3.Extract(0, 0, v)
        return v
    def store(s, st, addr, t, v):
        t = s.res(t)
        if isinstance(t, TStruct):
            for (f, o), x in zip(s.fields(t), v): s.store(st, addr + o, f, x)
            return
        if isinstance(t, TArr):
            es = s.sizeof(t.el)
            for i, x in enumerate(v): s.store(st, addr + i * es, t.el, x)
            return
        n = s.sizeof(t)
        if is_sym(v) and v.size() < 8 * n: v = z3.ZeroExt(8 * n - v.size(), v)
        s.store_bytes(st, addr, s.to_bytes(v, n))
    def res(s, t):
        while isinstance(t, TNamed): t = s.m.named[t.name]
        return t
    def fields(s, t):
        off = 0; out = []
        for f in t.fields:
            sz, al = s.layout.sizeof_align(f)
            if t.packed: al = 1
            off = (off + al - 1) // al * al
            out.append((f, off)); off += sz
        return out

    # ---------- globals
    def init_globals(s, st):
        # function addresses
        fa = 0x1000
        for n in list(s.m.funcs) + list(s.m.decls):
            s.faddr[n] = fa; s.addr2f[fa] = n; fa += 16
        for n, g in s.m.globals.items():
            if n == '@llvm.global_ctors': continue
            try: size = s.sizeof(g['type'])
            except Exception: size = 8
            s.gaddr[n] = s.alloc(st, max(size, 1), 'const' if g['const'] else 'global')
        if '@__libc_single_threaded' in s.gaddr:       # glibc flag read by shared_ptr: 0 = take the atomic (always correct) path
            st.mem[s.gaddr['@__libc_single_threaded']] = 0
        # libstdc++ VTTs referenced by INLINED stream destructors: every slot points to a fake vtable whose vbase-offset entry
        # (vptr[-3]) places the virtual std::ios base where the real layout has it
        for n, off in (('@_ZTTNSt7__cxx1119basic_ostringstreamIcSt11char_traitsIcESaIcEEE', [112] * 4),
                       ('@_ZTTNSt7__cxx1118basic_stringstreamIcSt11char_traitsIcESaIcEEE', [128, 128, 128, 112, 112, 112, 128, 128, 112, 128])):
            if n in s.gaddr:
                base = s.gaddr[n]
                if st.objs[base][0] < 8 * len(off):
                    base = s.alloc(st, 8 * len(off), 'global'); s.gaddr[n] = base
                for i, o in enumerate(off):
                    vt = s.alloc(st, 64, 'global'); s.store_bytes(st, vt, [0] * 64); s.store(st, vt, TInt(64), o)
                    for k, b in enumerate(s.to_bytes(vt + 24, 8)): st.mem[base + 8 * i + k] = b
        for n, g in s.m.globals.items():
            if n == '@llvm.global_ctors' or g['init'] is None: continue
            base = s.gaddr[n]
            st.objs[base] = (st.objs[base][0], 'global', True)
            s.store(st, base, g['type'], s.const(st, None, g['init']))
            if g['const']: st.objs[base] = (st.objs[base][0], 'const', True)
    def run_ctors(s, st):
        g = s.m.globals.get('@llvm.global_ctors')
        if not g or g['init'] is None or g['init'].kind != 'agg': return
        for e in g['init'].els:
            c = e.els[1]
            while c.kind == 'cast': c = c.src
            s.call_fn(st, c.name, [])

    # ---------- constants
    def const(s, st, fr, c):
        k = c.kind
        if k == 'int':
            b = c.ty.bits; v = c.v
            return v & ((1 << b) - 1)
        if k == 'null': return 0
        if k in ('undef',):
            return s.zero(c.ty) if not isinstance(s.res(c.ty), (TInt, TPtr)) else UNDEF
        if k == 'zero': return s.zero(c.ty)
        if k == 'local':
            return fr.regs[c.name]
        if k == 'glob':
            n = c.name
            while n in s.m.aliases and s.m.aliases[n].kind == 'glob': n = s.m.aliases[n].name
            if n in s.gaddr: return s.gaddr[n]
            if n in s.faddr: return s.faddr[n]
            raise Unsupported('global ' + n)
        if k == 'cstr':
            raw = c.v[2:-1]; bs = []; i = 0
            while i < len(raw):
                if raw[i] == '\\':
                    if raw[i + 1] == '\\': bs.append(92); i += 2
                    else: bs.append(int(raw[i + 1:i + 3], 16)); i += 3
                else: bs.append(ord(raw[i])); i += 1
            return bs
        if k == 'agg': return [s.const(st, fr, e) for e in c.els]
        if k == 'cast':
            return s.cast(c.op, c.src.ty, s.const(st, fr, c.src), c.ty)
        if k == 'gep':
            return s.gep(st, c.bty, s.const(st, fr, c.base), [(i.ty, s.const(st, fr, i)) for i in c.idx])
        if k == 'bin':
            return s.binop(c.op, c.ty, s.const(st, fr, c.a), s.const(st, fr, c.b))
        if k == 'float' or k == 'fhex':
            # floating-point values are carried as raw IEEE bit patterns (load/store/copy only; arithmetic on them is unsupported)
            txt = str(c.v)
            try:
                if txt.lower().startswith('0x'): d = struct.unpack('<d', struct.pack('<Q', int(txt, 16)))[0]
                else: d = float(txt)
            except Exception: raise Unsupported('float const ' + txt)
            t = s.res(c.ty)
            if isinstance(t, TFloat) and getattr(t, 'kind', '') == 'float': return struct.unpack('<I', struct.pack('<f', d))[0]
            return struct.unpack('<Q', struct.pack('<d', d))[0]
        raise Unsupported('const ' + k)
    def zero(s, t):
        t = s.res(t)
        if isinstance(t, TStruct): return [s.zero(f) for f in t.fields]
        if isinstance(t, TArr): return [s.zero(t.el) for _ in range(t.n)]
        return 0

    # ---------- ops
    def bv(s, v, bits):
        return v if is_sym(v) else z3.BitVecVal(v, bits)
    def binop(s, op, ty, a, b):
        bits = ty.bits if isinstance(ty, TInt) else 64
        if a is UNDEF or b is UNDEF: return UNDEF
        mask = (1 << bits) - 1
        if not is_sym(a) and not is_sym(b):
            def sg(x): return x - (1 << bits) if x >> (bits - 1) else x
            if op == 'add': r = a + b
            elif op == 'sub': r = a - b
            elif op == 'mul': r = a * b
            elif op == 'and': r = a & b
            elif op == 'or': r = a | b
            elif op == 'xor': r = a ^ b
            elif op == 'shl': r = a << b if b < bits else 0
            elif op == 'lshr': r = a >> b if b < bits else 0
            elif op == 'ashr': r = sg(a) >> min(b, bits - 1)
            elif op == 'udiv':
                if b == 0: raise Violation('division by zero')
                r = a // b
            elif op == 'urem':
                if b == 0: raise Violation('division by zero')
                r = a % b
            elif op in ('sdiv', 'srem'):
                if b == 0: raise Violation('division by zero')
                x, y = sg(a), sg(b); q = abs(x) // abs(y); q = q if (x < 0) == (y < 0) else -q
                r = q if op == 'sdiv' else x - q * y
            else: raise Unsupported(op)
            return r & mask
        x, y = s.bv(a, bits), s.bv(b, bits)
        r = {'add': lambda: x + y, 'sub': lambda: x - y, 'mul': lambda: x * y, 'and': lambda: x & y, 'or': lambda: x | y,
             'xor': lambda: x ^ y, 'shl': lambda: x << y, 'lshr': lambda: z3.LShR(x, y), 'ashr': lambda: x >> y,
             'udiv': lambda: z3.UDiv(x, y), 'urem': lambda: z3.URem(x, y), 'sdiv': lambda: x / y, 'srem': lambda: z3.SRem(x, y)}[op]()
        r = z3.simplify(r)
        if s.sweep_mode and bits == 32 and op in ('add', 'or', 'xor'):
            r = s.sweep(r)
        return r
    def sweep_sig(s, t):
        import random
        if not s.sweep_assign:
            rnd = random.Random(12345)
            s.sweep_assign = [dict() for _ in range(3)]
            s.sweep_rnd = rnd
        vals = []
        for asg in s.sweep_assign:
            subs = []
            for v in s.all_syms:
                k = v.decl().name()
                if k not in asg: asg[k] = s.sweep_rnd.getrandbits(v.size())
                subs.append((v, z3.BitVecVal(asg[k], v.size())))
            vals.append(z3.simplify(z3.substitute(t, *subs)).as_long())
        return tuple(vals)
    def sweep(s, t):
        if z3.is_bv_value(t): return t
        sig = s.sweep_sig(t)
        if s.sweep_mode == 'record':
            s.sweep_tab.setdefault(sig, t); return t
        u = s.sweep_tab.get(sig)
        if u is None: return t
        if u.eq(t): return u
        # prove t == u with the already-merged representatives abstracted by fresh constants
        subs = [(r, v) for (r, v) in s.sweep_reps if not r.eq(u)]
        tt = z3.substitute(t, *subs) if subs else t
        uu = z3.substitute(u, *subs) if subs else u
        sv = z3.Solver(); sv.add(tt != uu)
        sv.set('timeout', 20000)
        t0 = time.time(); res = sv.check(); s.stats['solver_calls'] += 1; s.stats['solver_time'] += time.time() - t0
        print('sweep q%d %s %.2fs instrs=%d' % (s.stats.get('sweep_queries', 0), res, time.time() - t0, s.stats['instrs']), flush=True)
        s.stats['sweep_queries'] = s.stats.get('sweep_queries', 0) + 1
        if res == z3.unsat:
            s.stats['sweep_merged'] = s.stats.get('sweep_merged', 0) + 1
            s.sweep_reps.append((u, z3.BitVec('cut%d' % len(s.sweep_reps), 32)))
            return u
        return t
    def icmp(s, pred, ty, a, b):
        if a is UNDEF or b is UNDEF: return UNDEF
        t = s.res(ty); bits = t.bits if isinstance(t, TInt) else 64
        if not is_sym(a) and not is_sym(b):
            def sg(x): return x - (1 << bits) if x >> (bits - 1) else x
            r = {'eq': a == b, 'ne': a != b, 'ult': a < b, 'ule': a <= b, 'ugt': a > b, 'uge': a >= b,
                 'slt': sg(a) < sg(b), 'sle': sg(a) <= sg(b), 'sgt': sg(a) > sg(b), 'sge': sg(a) >= sg(b)}[pred]
            return 1 if r else 0
        x, y = s.bv(a, bits), s.bv(b, bits)
        c = {'eq': lambda: x == y, 'ne': lambda: x != y, 'ult': lambda: z3.ULT(x, y), 'ule': lambda: z3.ULE(x, y),
             'ugt': lambda: z3.UGT(x, y), 'uge': lambda: z3.UGE(x, y), 'slt': lambda: x < y, 'sle': lambda: x <= y,
             'sgt': lambda: x > y, 'sge': lambda: x >= y}[pred]()
        return z3.simplify(z3.If(c, z3.BitVecVal(1, 1), z3.BitVecVal(0, 1)))
    def cast(s, op, sty, v, dty):
        if v is UNDEF: return UNDEF
        st_, dt = s.res(sty), s.res(dty)
        if op in ('bitcast', 'ptrtoint', 'inttoptr'):
            sb = st_.bits if isinstance(st_, TInt) else 64
            db = dt.bits if isinstance(dt, TInt) else 64
            if sb == db: return v
            op = 'trunc' if db < sb else 'zext'
            st_ = TInt(sb); dt = TInt(db)
        sb, db = st_.bits, dt.bits
        if not is_sym(v):
            if op == 'trunc': return v & ((1 << db) - 1)
            if op == 'zext': return v
            if op == 'sext':
                if v >> (sb - 1): v -= (1 << sb)
                return v & ((1 << db) - 1)
            raise Unsupported(op)
        if op == 'trunc': return z3.simplify(z3.Extract(db - 1, 0, v))
        if op == 'zext': return z3.simplify(z3.ZeroExt(db - sb, v))
        if op == 'sext': return z3.simplify(z3.SignExt(db - sb, v))
        raise Unsupported(op)
    def gep(s, st, bty, base, idx):
        if base is UNDEF: return UNDEF
        addr = base; cur = bty
        for n, (ity, iv) in enumerate(idx):
            if iv is UNDEF: raise Violation('uninitialised value used as index')
            ib = ity.bits
            if is_sym(iv):
                iv = z3.SignExt(64 - ib, iv) if ib < 64 else iv
            else:
                if iv >> (ib - 1): iv -= (1 << ib)
            if n == 0:
                step = s.sizeof(cur)
            else:
                t = s.res(cur)
                if isinstance(t, TStruct):
                    f, off = s.fields(t)[iv]
                    addr = addr + off; cur = f; continue
                cur = t.el; step = s.sizeof(cur)
            addr = addr + iv * step
            if not is_sym(addr): addr &= (1 << 64) - 1
        return z3.simplify(addr) if is_sym(addr) else addr

    # ---------- execution
    def new_sym(s, bits, name='x'):
        s.nsym += 1
        v = z3.BitVec('%s%d' % (name, s.nsym), bits)
        s.all_syms.append(v)
        return v

    def call_fn(s, st, name, args):
        """run function to completion on this state (no forking allowed at top level helper)"""
        depth = len(st.stack)
        s.push_call(st, name, args, None)
        s.run_until(st, depth)
        return st.last_ret if hasattr(st, 'last_ret') else None

    def push_call(s, st, name, args, res_reg, argtypes=None):
        while name in s.m.aliases and s.m.aliases[name].kind == 'glob': name = s.m.aliases[name].name
        f = s.m.funcs.get(name)
        # a function DEFINED in the module (real code, or a harness-level seam such as a virtual clock) wins over a built-in model
        if f is None or (name[1:] in s.models and name[1:] in FORCE_MODEL):
            mdl = s.models.get(name[1:])
            if mdl is None: raise Unsupported('unmodelled external ' + name)
            s.models_used.add(name[1:])
            r = mdl(s, st, args)
            if r is NORESULT: return
            if st.exc is not None and res_reg is not None: return
            if res_reg is not None and st.stack: st.stack[-1].regs[res_reg] = r
            st.last_ret = r
            return
        s.fn_seen.add(f.name)
        if len(st.stack) >= s.max_depth:
            raise Violation('call depth exceeds %d frames (unbounded recursion?) in %s' % (s.max_depth, f.name))
        fr = Frame(f); fr.ret_to = res_reg
        for (t, nm, info), a in zip(f.params, args):
            if nm: fr.regs[nm] = a
        if len(args) > len(f.params):      # variadic call: the extra arguments are kept for llvm.va_start
            tys = argtypes[len(f.params):] if argtypes else [None] * (len(args) - len(f.params))
            fr.regs['$va'] = tuple(zip(tys, args[len(f.params):]))
        st.stack.append(fr)

    def explore(s, entry, setup=None):
        st0 = State()
        s.init_globals(st0)
        s.run_ctors(st0)
        work = [st0]
        s.push_call(st0, entry, [], None)
        s.reached = set()
        while work:
            if s.stats['paths'] >= s.max_paths: raise Unsupported('path limit %d' % s.max_paths)
            if time.time() > s.deadline: raise Unsupported('time budget exhausted')
            st = work.pop()
            try:
                s.run_until(st, 0, work)
                s.stats['paths'] += 1
                if st.exc is not None:
                    s.record_violation('uncaught exception escapes entry point: %s' % s.exc_name(st, st.exc), st)
                else:
                    s.path_end(st)
            except Violation as e:
                s.stats['paths'] += 1
                s.record_violation(str(e), st)
            except PathEnd:
                s.stats['paths'] += 1
        return s.violations
    def path_end(s, st):
        if s.sample is None and st.nd_log:
            mdl = s.model(st)
            if mdl is not None:
                s.sample = [mdl.eval(v, model_completion=True).as_long() for v in st.nd_log]
    def exc_name(s, st, exc):
        obj, ty = exc
        if isinstance(ty, tuple): return 'std::' + ty[1]
        for nm, a in s.gaddr.items():
            if a == ty: return nm
        return hex(ty) if isinstance(ty, int) else str(ty)
    def record_violation(s, msg, st):
        mdl = s.model(st)
        vals = None
        if mdl is not None:
            vals = [mdl.eval(v, model_completion=True).as_long() for v in st.nd_log]
        stack = []
        for th in st.threads:
            stack.append([f.fn.name for f in th.stack][-8:])
        where = getattr(st, 'exc_where', None)
        s.violations.append({'msg': msg, 'values': vals, 'schedule': list(st.sched_log), 'stack': stack[st.cur] if st.cur < len(stack) else [],
                             'exc_where': where, 'notes': list(st.notes), 'model_unavailable': mdl is None})
    # ---------- happens-before race detection (vector clocks). Edges: thread start/join, mutex unlock->lock (also inside condition
    # waits), atomic operations on the same address. Every plain load/store of heap/global memory by a thread is checked against the
    # last write and the reads since; an unordered conflicting pair is a data race.
    def vc_of(s, st, tid):
        if not hasattr(st, 'vc'): st.vc = {}; st.sync_vc = {}; st.hb = {}
        v = st.vc.get(tid)
        if v is None: v = {tid: 1}; st.vc[tid] = v
        return v
    def vc_release(s, st, tid, key):
        v = s.vc_of(st, tid); st.sync_vc = dict(st.sync_vc); old = st.sync_vc.get(key)
        nv = dict(v)
        if old:
            for k, c in old.items():
                if nv.get(k, 0) < c: nv[k] = c
        st.sync_vc[key] = nv
        st.vc = dict(st.vc); w = dict(v); w[tid] = w.get(tid, 0) + 1; st.vc[tid] = w
    def vc_acquire(s, st, tid, key):
        v = s.vc_of(st, tid); o = st.sync_vc.get(key)
        if not o: return
        w = dict(v)
        for k, c in o.items():
            if w.get(k, 0) < c: w[k] = c
        st.vc = dict(st.vc); st.vc[tid] = w
    def track(s, st, addr, is_write, fr, work, atomic=False):
        if len(st.threads) < 2 or is_sym(addr): return
        o = s.find_obj(st, addr)
        if o is None or o[2] not in ('heap', 'global'): return
        tid = st.cur
        if atomic:
            s.vc_acquire(st, tid, ('a', addr)); s.vc_release(st, tid, ('a', addr)); return
        v = s.vc_of(st, tid)
        h = st.hb.get(addr)
        race = None
        if h is not None:
            wt, wc, reads = h
            if wt is not None and wt != tid and v.get(wt, 0) < wc: race = ('write', wt)
            if is_write and race is None:
                for rt, rc in reads.items():
                    if rt != tid and v.get(rt, 0) < rc: race = ('read', rt); break
        if race is not None and addr not in s.races:
            s.races[addr] = (fr.fn.name, tid, is_write, o[0])
        st.hb = dict(st.hb) if not getattr(st, 'hb_own', False) else st.hb
        st.hb_own = True
        if is_write: st.hb[addr] = (tid, v.get(tid, 0), {})
        else:
            if h is None: st.hb[addr] = (None, 0, {tid: v.get(tid, 0)})
            else:
                r2 = dict(h[2]); r2[tid] = v.get(tid, 0); st.hb[addr] = (h[0], h[1], r2)
        if addr in s.racy_points and work is not None:
            s.switch(st, work, False)

    def enabled(s, st, th):
        if th.finished: return False
        b = th.blocked
        if b is None: return True
        if b[0] == 'mutex': return s.load(st, b[1], TInt(32)) == 0
        if b[0] == 'cond':
            woken = th.tid in st.cv.get(b[1], (set(), set()))[1]
            return woken or (b[2] and th.timeouts < s.max_timeouts)
        if b[0] == 'join': return st.threads[b[1]].finished
        return False
    def switch(s, st, work, must):
        """scheduling point. must=True: current thread cannot continue."""
        cands = [t.tid for t in st.threads if t.tid != st.cur and s.enabled(st, t)]
        if must:
            if not cands:
                # nobody else can run: a thread sleeping in a TIMED wait eventually times out (the expiry bound only limits early expiries)
                cands = [t.tid for t in st.threads if not t.finished and t.blocked is not None and t.blocked[0] == 'cond' and t.blocked[2]]
                for c in cands: st.threads[c].timeouts = -1000000
            if not cands:
                if all(t.finished for t in st.threads): raise PathEnd()
                raise Violation('deadlock: no thread can run; blocked: %s' % [(t.tid, t.blocked) for t in st.threads if not t.finished])
            for c in cands[1:]:
                o = st.fork(); o.cur = c; o.sched_log.append(c); work.append(o); s.stats['forks'] += 1
            st.cur = cands[0]; st.sched_log.append(cands[0])
        else:
            if st.preempt < s.max_preempt:
                for c in cands:
                    o = st.fork(); o.cur = c; o.preempt += 1; o.sched_log.append(c); work.append(o); s.stats['forks'] += 1

    def run_until(s, st, depth, work=None):
        while True:
            th = st.threads[st.cur]
            if th.blocked is not None and not s.enabled(st, th):
                s.switch(st, work, True); continue
            if len(th.stack) == 0 and th.ctx_cur is not None:
                link = st.ctx[th.ctx_cur][1]
                if not link: raise Violation('coroutine context returned without uc_link')
                th.stack = st.ctx[link][0]; th.ctx_cur = link if link != th.ctx_root else None
                continue
            if len(th.stack) <= (depth if st.cur == 0 else 0):
                if st.cur == 0: return
                th.finished = True
                s.switch(st, work, True); continue
            fr = st.stack[-1]
            if st.exc is not None:
                s.unwind(st, depth)
                continue
            ins = fr.fn.blocks[fr.block][fr.ip]
            fr.ip += 1
            st.steps += 1; s.stats['instrs'] += 1
            if st.steps > s.max_steps: raise Unsupported('step limit')
            try:
                s.step(st, fr, ins, work)
            except ForkOn as fo:
                # a symbolic address/size has several feasible values: fork on (expr == value) and retry the instruction
                fr.ip -= 1
                if work is None: raise Unsupported('fork inside helper run')
                f1 = s.feasible(st, fo.cond); f0 = s.feasible(st, z3.Not(fo.cond))
                if f1 and f0:
                    other = st.fork(); s.add_pc(other, z3.Not(fo.cond)); s.add_pc(st, fo.cond)
                    work.append(other); s.stats['forks'] += 1
                elif f1: s.add_pc(st, fo.cond)
                elif f0: s.add_pc(st, z3.Not(fo.cond))
                else: raise PathEnd()

    def unwind(s, st, depth):
        # pop frames until one sits on an invoke
        while len(st.stack) > depth:
            fr = st.stack[-1]
            ins = fr.fn.blocks[fr.block][fr.ip - 1] if fr.ip > 0 else None
            if ins is not None and ins.op == 'invoke':
                s.jump(st, fr, ins.unwind)
                # landingpad executes next and clears st.exc into registers
                lp = fr.fn.blocks[fr.block][fr.ip]
                while lp.op == 'phi':
                    fr.ip += 1; lp = fr.fn.blocks[fr.block][fr.ip]
                assert lp.op == 'landingpad'
                fr.ip += 1
                obj, ty = st.exc
                sel = 0
                for kind, cv in lp.clauses:
                    if kind != 'catch': continue
                    c = cv
                    while c.kind == 'cast': c = c.src
                    if c.kind == 'null': sel = 0xffff; break
                    if s.exc_matches(st, ty, c.name): sel = s.typeid(c.name); break
                fr.regs[lp.res] = [obj, sel]
                st.inflight = st.exc
                st.exc = None
                return
            st.stack.pop()
        # reached depth with exception still active
        return

    def typeid(s, name):
        return (s.gaddr.get(name, 0) or abs(hash(name))) & 0x7fffffff
    def exc_matches(s, st, thrown, catch_name):
        """does a handler for typeinfo `catch_name` catch an exception of dynamic type `thrown` (typeinfo address or ('std', kind))?
        Walks the single-inheritance __si_class_type_info chain of module-defined typeinfos; libstdc++'s own hierarchy comes from a table."""
        if isinstance(thrown, tuple):
            return catch_name in STD_EXC_BASES.get(thrown[1], ())
        ca = s.gaddr.get(catch_name)
        if not hasattr(s, 'addr2ti'): s.addr2ti = {a: nm for nm, a in s.gaddr.items() if nm.startswith('@_ZTI')}
        t = thrown
        for _ in range(12):
            if t == ca: return True
            nm = s.addr2ti.get(t)
            if nm in STD_TI_BASES: return catch_name in STD_TI_BASES[nm]
            o = s.find_obj(st, t)
            if o is None or o[1] < 24: break
            t = s.from_bytes([st.mem.get(t + 16 + i, 0) for i in range(8)])
            if not isinstance(t, int) or t == 0: break
        return False

    def jump(s, st, fr, label):
        fr.prev = fr.block; fr.block = label; fr.ip = 0
        # evaluate phis in parallel
        blk = fr.fn.blocks[label]
        vals = []
        for ins in blk:
            if ins.op != 'phi': break
            for v, l in ins.inc:
                if l == fr.prev:
                    vals.append((ins.res, s.const(st, fr, v))); break
            fr.ip += 1
        for r, v in vals: fr.regs[r] = v

    def val(s, st, fr, c): return s.const(st, fr, c)

    def branch(s, st, fr, cond, a, b, work):
        if cond is UNDEF: raise Violation('branch on uninitialised value in %s' % fr.fn.name)
        if not is_sym(cond):
            s.jump(st, fr, a if cond & 1 else b); return
        c = (cond == 1) if cond.size() == 1 else (cond != 0)
        if s.undef_syms:
            c = z3.simplify(c)
            us = [v for v in z3_vars(c) if v.decl().name() in s.undef_syms]
            if us:
                # does the outcome really depend on the uninitialised bits?  (c with the tagged symbols renamed must be able to differ)
                ren = [(u, z3.BitVec(u.decl().name() + '_alt', u.size())) for u in us]
                if s.feasible(st, c != z3.substitute(c, *ren)): raise Violation('branch on uninitialised value in %s' % fr.fn.name)
                c = z3.simplify(z3.substitute(c, *[(u, z3.BitVecVal(0, u.size())) for u in us]))
        ta = s.feasible(st, c); tb = s.feasible(st, z3.Not(c))
        if ta and tb:
            s.stats['forks'] += 1
            other = st.fork()
            s.add_pc(other, z3.Not(c)); s.jump(other, other.stack[-1], b)
            if work is None: raise Unsupported('fork inside helper run')
            work.append(other)
            s.add_pc(st, c); s.jump(st, fr, a)
        elif ta: s.jump(st, fr, a)
        elif tb: s.jump(st, fr, b)
        else: raise PathEnd()

    def step(s, st, fr, ins, work):
        op = ins.op
        R = ins.res
        if op == 'bin':
            fr.regs[R] = s.binop(ins.bop, ins.ty, s.val(st, fr, ins.a), s.val(st, fr, ins.b))
        elif op == 'icmp':
            fr.regs[R] = s.icmp(ins.pred, ins.ty, s.val(st, fr, ins.a), s.val(st, fr, ins.b))
        elif op == 'cast':
            fr.regs[R] = s.cast(ins.cop, ins.sty, s.val(st, fr, ins.a), ins.dty)
        elif op == 'gep':
            fr.regs[R] = s.gep(st, ins.bty, s.val(st, fr, ins.base), [(i.ty, s.val(st, fr, i)) for i in ins.idx])
        elif op == 'load':
            a = s.val(st, fr, ins.a)
            if a is UNDEF: raise Violation('load through uninitialised pointer')
            fr.regs[R] = s.load(st, a, ins.ty)
            s.track(st, a, False, fr, work, getattr(ins, 'atomic', False))
        elif op == 'store':
            a = s.val(st, fr, ins.a)
            if a is UNDEF: raise Violation('store through uninitialised pointer')
            s.store(st, a, ins.ty, s.val(st, fr, ins.v))
            s.track(st, a, True, fr, work, getattr(ins, 'atomic', False))
        elif op == 'alloca':
            n = 1 if ins.n is None else s.concretize(st, s.val(st, fr, ins.n))
            base = s.alloc(st, max(s.sizeof(ins.ty) * n, 1), 'stack')
            fr.allocas.append(base); fr.regs[R] = base
        elif op == 'br':
            s.jump(st, fr, ins.dest)
        elif op == 'condbr':
            s.branch(st, fr, s.val(st, fr, ins.c), ins.a, ins.b, work)
        elif op == 'switch':
            v = s.val(st, fr, ins.v)
            if v is UNDEF: raise Violation('switch on uninitialised value')
            if is_sym(v):
                # fork over feasible cases
                targets = []
                rest = []
                for cv, cl in ins.cases:
                    k = s.val(st, fr, cv)
                    if s.feasible(st, v == k): targets.append((v == k, cl))
                    rest.append(v != k)
                dflt = z3.And(*rest) if rest else z3.BoolVal(True)
                if s.feasible(st, dflt): targets.append((dflt, ins.default))
                if not targets: raise PathEnd()
                for c, l in targets[1:]:
                    o = st.fork(); s.add_pc(o, c); s.jump(o, o.stack[-1], l); work.append(o); s.stats['forks'] += 1
                s.add_pc(st, targets[0][0]); s.jump(st, fr, targets[0][1])
            else:
                dest = ins.default
                for cv, cl in ins.cases:
                    if s.val(st, fr, cv) == v: dest = cl; break
                s.jump(st, fr, dest)
        elif op == 'ret':
            v = None if ins.v is None else s.val(st, fr, ins.v)
            for b in fr.allocas:
                sz, k, _ = st.objs[b]; st.objs[b] = (sz, k, False)
            st.stack.pop()
            st.last_ret = v
            if st.stack and fr.ret_to is not None: st.stack[-1].regs[fr.ret_to] = v
            if st.stack:
                caller = st.stack[-1]
                ci = caller.fn.blocks[caller.block][caller.ip - 1]
                if ci.op == 'invoke': s.jump(st, caller, ci.normal)
        elif op == 'unreachable':
            raise Violation('reached unreachable in %s' % fr.fn.name)
        elif op == 'select':
            c = s.val(st, fr, ins.c); a = s.val(st, fr, ins.a); b = s.val(st, fr, ins.b)
            if c is UNDEF: raise Violation('select on uninitialised value')
            if is_sym(c):
                bits = s.sizeof(ins.ty) * 8 if not (isinstance(s.res(ins.ty), TInt) and s.res(ins.ty).bits == 1) else 1
                if a is UNDEF or b is UNDEF or isinstance(a, list) or isinstance(b, list):
                    # one arm is uninitialised / aggregate: decide the condition (fork when both values are feasible)
                    t1 = s.feasible(st, c == 1); t0 = s.feasible(st, c == 0)
                    if t1 and t0: raise ForkOn(c == 1)
                    fr.regs[R] = a if t1 else b
                    return
                fr.regs[R] = z3.simplify(z3.If(c == 1, s.bv(a, bits), s.bv(b, bits)))
            else:
                fr.regs[R] = a if c & 1 else b
        elif op in ('call', 'invoke'):
            s.do_call(st, fr, ins, work)
        elif op == 'landingpad':
            raise Unsupported('landingpad reached by normal flow')
        elif op == 'resume':
            st.exc = st.inflight
            st.stack.pop()
        elif op == 'extractvalue':
            v = s.val(st, fr, ins.a)
            for i in ins.idx: v = v[i]
            fr.regs[R] = v
        elif op == 'insertvalue':
            import copy
            v = copy.deepcopy(s.val(st, fr, ins.a)) if not is_sym(s.val(st, fr, ins.a)) else s.val(st, fr, ins.a)
            if v is UNDEF or v == 0: v = s.zero(ins.ty)
            cur = v
            for i in ins.idx[:-1]: cur = cur[i]
            cur[ins.idx[-1]] = s.val(st, fr, ins.e)
            fr.regs[R] = v
        elif op == 'atomicrmw':
            a = s.val(st, fr, ins.a); old = s.load(st, a, ins.ty); v = s.val(st, fr, ins.v)
            new = v if ins.rop == 'xchg' else s.binop(ins.rop, ins.ty, old, v)
            s.store(st, a, ins.ty, new); fr.regs[R] = old
            s.track(st, a, True, fr, work, True)
        elif op == 'fence':
            pass
        elif op == 'phi':
            pass
        else:
            raise Unsupported('op ' + op)

    def do_call(s, st, fr, ins, work):
        callee = ins.callee
        args = [s.val(st, fr, a) for (t, a, info) in ins.args if a is not None]
        # byval copies
        for i, (t, a, info) in enumerate([x for x in ins.args if x[1] is not None]):
            if 'byval' in info:
                sz = s.sizeof(info['byval']); nb = s.alloc(st, sz, 'stack')
                s.store_bytes(st, nb, s.load_bytes(st, args[i], sz)); args[i] = nb
        if callee.kind == 'glob':
            name = callee.name
        else:
            fa = s.val(st, fr, callee)
            if fa is UNDEF: raise Violation('call through uninitialised function pointer')
            fa = s.concretize(st, fa)
            name = s.addr2f.get(fa)
            if name is None: raise Violation('indirect call to non-function address 0x%x' % fa)
        nm = name[1:]
        if nm.startswith('llvm.'):
            r = s.intrinsic(st, fr, nm, args, ins)
            if ins.res: fr.regs[ins.res] = r
            if ins.op == 'invoke': s.jump(st, fr, ins.normal)
            return
        if nm in HARNESS_API:
            r = HARNESS_API[nm](s, st, fr, args, work)
            if ins.res: fr.regs[ins.res] = r
            if ins.op == 'invoke': s.jump(st, fr, ins.normal)
            return
        before = len(st.stack)
        is_model = (name not in s.m.funcs) or (nm in s.models and nm in FORCE_MODEL)
        if is_model:
            snap = st.fork() if nm not in SYNC_MODELS else None
            st.want_sched = False
            try:
                s.push_call(st, name, args, ins.res)
            except Block as b:
                th = st.threads[st.cur]; th.blocked = b.reason; fr.ip -= 1
                s.switch(st, work, True)
                return
            except NeedFork as nf:
                # a model met a symbolic comparison that can go both ways: fork *before* the call and retry it
                other = snap.fork()
                st.__dict__.clear(); st.__dict__.update(snap.__dict__)
                st.stack[-1].ip -= 1; other.stack[-1].ip -= 1
                s.add_pc(st, nf.cond); s.add_pc(other, z3.Not(nf.cond))
                if work is None: raise Unsupported('fork inside helper run')
                work.append(other); s.stats['forks'] += 1
                return
        else:
            s.push_call(st, name, args, ins.res, [t for (t, a, info) in ins.args if a is not None])
        if len(st.stack) == before:
            # external model executed synchronously
            if st.exc is None and ins.op == 'invoke': s.jump(st, fr, ins.normal)
            if getattr(st, 'want_sched', False):
                st.want_sched = False
                s.switch(st, work, False)

    def intrinsic(s, st, fr, nm, args, ins):
        if nm.startswith('llvm.lifetime') or nm.startswith('llvm.experimental.noalias') or nm.startswith('llvm.assume') or nm.startswith('llvm.stackrestore') or nm.startswith('llvm.dbg'):
            return None
        if nm.startswith('llvm.memcpy') or nm.startswith('llvm.memmove'):
            n = s.concretize(st, args[2])
            if n: s.store_bytes(st, args[0], s.load_bytes(st, args[1], n))
            return None
        if nm.startswith('llvm.memset'):
            n = s.concretize(st, args[2])
            if n: s.store_bytes(st, args[0], [args[1] if not is_sym(args[1]) else args[1]] * n)
            return None
        if nm.startswith('llvm.umax') or nm.startswith('llvm.umin'):
            a, b = args
            if is_sym(a) or is_sym(b):
                bits = ins.rty.bits; x, y = s.bv(a, bits), s.bv(b, bits)
                return z3.simplify(z3.If(z3.UGT(x, y), x, y) if 'umax' in nm else z3.If(z3.ULT(x, y), x, y))
            return max(a, b) if 'umax' in nm else min(a, b)
        if nm.startswith('llvm.fshl') or nm.startswith('llvm.fshr'):
            bits = ins.rty.bits; a, b, c = args
            if not is_sym(c):
                c %= bits
                if c == 0: return a if 'fshl' in nm else b
                if 'fshl' in nm: return s.binop('or', ins.rty, s.binop('shl', ins.rty, a, c), s.binop('lshr', ins.rty, b, bits - c))
                return s.binop('or', ins.rty, s.binop('lshr', ins.rty, b, c), s.binop('shl', ins.rty, a, bits - c))
            raise Unsupported('symbolic funnel shift amount')
        if nm.startswith('llvm.eh.typeid.for'):
            c = ins.args[0][1]
            while c.kind == 'cast': c = c.src
            return s.typeid(c.name)
        if nm.startswith('llvm.load.relative'):
            base = s.concretize(st, args[0]); off = s.concretize(st, args[1])
            v = s.load(st, (base + off) & ((1 << 64) - 1), TInt(32))
            if is_sym(v): v = s.concretize(st, v)
            if v >> 31: v -= 1 << 32
            return (base + v) & ((1 << 64) - 1)
        if nm.startswith('llvm.abs'):
            a = args[0]; bits = ins.rty.bits
            if is_sym(a): return z3.simplify(z3.If(a < 0, -a, a))
            return ((1 << bits) - a) & ((1 << bits) - 1) if a >> (bits - 1) else a
        if nm.startswith('llvm.va_start'):
            # x86-64 va_list {i32 gp_offset, i32 fp_offset, i8* overflow_arg_area, i8* reg_save_area}: every variadic argument is laid out
            # in 8-byte slots of the overflow area and both offsets are set past the register save area, so va_arg always takes the memory path
            va = fr.regs.get('$va', ())
            ap = s.concretize(st, args[0])
            blk = s.alloc(st, max(8, 8 * len(va)), 'stack')
            for i, (t, v) in enumerate(va):
                bits = t.bits if isinstance(t, TInt) else 64
                if v is UNDEF: continue
                if bits < 64:
                    v = z3.ZeroExt(64 - bits, v) if is_sym(v) else (v & ((1 << bits) - 1))
                s.store(st, blk + 8 * i, TInt(64), v)
            s.store(st, ap, TInt(32), 48); s.store(st, ap + 4, TInt(32), 304)
            s.store(st, ap + 8, TInt(64), blk); s.store(st, ap + 16, TInt(64), 0)
            return None
        if nm.startswith('llvm.va_copy'):
            d = s.concretize(st, args[0]); a = s.concretize(st, args[1])
            s.store_bytes(st, d, s.load_bytes(st, a, 24)); return None
        if nm.startswith('llvm.va_end'): return None
        if nm.startswith('llvm.stacksave'): return 0
        if nm.startswith('llvm.trap'): raise Violation('trap')
        raise Unsupported('intrinsic ' + nm)

# ---------------------------------------------------------------------------
# harness API + models
# ---------------------------------------------------------------------------
def h_nondet(bits):
    def f(e, st, fr, args, work):
        v = e.new_sym(bits, 'nd'); st.nd_log.append(v); return v
    return f
def h_assume(e, st, fr, args, work):
    c = args[0]
    if not is_sym(c):
        if not (c & 1): raise PathEnd()
        return None
    cc = (c == 1) if c.size() == 1 else (c != 0)
    if not e.feasible(st, cc): raise PathEnd()
    e.add_pc(st, cc); return None
def h_assert(e, st, fr, args, work):
    c = args[0]
    msg = bytes(b for b in iter(lambda it=iter(range(200)): st.mem.get(args[1] + next(it), 0), 0) if isinstance(b, int)).decode(errors='replace')
    if msg.startswith('WITNESS:'):
        e.reached.add(msg[8:]); return None
    e.stats['asserts'] = e.stats.get('asserts', 0) + 1
    if c is UNDEF: raise Violation('assertion on uninitialised value: ' + msg)
    if not is_sym(c):
        if not (c & 1): raise Violation('assertion failed: ' + msg)
        return None
    bad = (c == 0) if c.size() == 1 else (c == 0)
    if e.feasible(st, bad):
        e.add_pc(st, bad)
        raise Violation('assertion failed: ' + msg)
    return None
def h_note(e, st, fr, args, work):
    tag = bytes(b for b in iter(lambda it=iter(range(200)): st.mem.get(args[0] + next(it), 0), 0) if isinstance(b, int)).decode(errors='replace')
    st.notes.append((tag, args[1] if not is_sym(args[1]) else str(args[1]))); return None
def h_concretize(e, st, fr, args, work):
    v = args[0]
    return e.concretize(st, v) if is_sym(v) else v          # one path per feasible value (ForkOn is handled by the engine)
HARNESS_API = {'vp_concretize': h_concretize, 'vp_false': lambda e, st, fr, a, w: 0, 'vp_note': h_note, 'nondet_ushort': h_nondet(16),
               'nondet_bool': h_nondet(1), 'nondet_uchar': h_nondet(8), 'nondet_ulong': h_nondet(64), 'nondet_uint': h_nondet(32),
               '__CPROVER_assume': h_assume, '__CPROVER_assert': h_assert,
               'vp_global_ctors': lambda e, st, fr, a, w: None,
               'vp_sweep_record': lambda e, st, fr, a, w: setattr(e, 'sweep_mode', 'record'),
               'vp_sweep_match': lambda e, st, fr, a, w: setattr(e, 'sweep_mode', 'match'),
               'vp_sweep_off': lambda e, st, fr, a, w: setattr(e, 'sweep_mode', None)}

STD_EXC_BASES = {
    'out_of_range': ('@_ZTISt12out_of_range', '@_ZTISt11logic_error', '@_ZTISt9exception'),
    'invalid_argument': ('@_ZTISt16invalid_argument', '@_ZTISt11logic_error', '@_ZTISt9exception'),
    'length_error': ('@_ZTISt12length_error', '@_ZTISt11logic_error', '@_ZTISt9exception'),
    'logic_error': ('@_ZTISt11logic_error', '@_ZTISt9exception'),
    'bad_alloc': ('@_ZTISt9bad_alloc', '@_ZTISt9exception'),
}
_LE = ('@_ZTISt11logic_error', '@_ZTISt9exception'); _RE = ('@_ZTISt13runtime_error', '@_ZTISt9exception')
STD_TI_BASES = {
    '@_ZTISt12out_of_range': ('@_ZTISt12out_of_range',) + _LE, '@_ZTISt16invalid_argument': ('@_ZTISt16invalid_argument',) + _LE,
    '@_ZTISt12length_error': ('@_ZTISt12length_error',) + _LE, '@_ZTISt12domain_error': ('@_ZTISt12domain_error',) + _LE,
    '@_ZTISt11logic_error': _LE, '@_ZTISt13runtime_error': _RE, '@_ZTISt11range_error': ('@_ZTISt11range_error',) + _RE,
    '@_ZTISt14overflow_error': ('@_ZTISt14overflow_error',) + _RE, '@_ZTISt15underflow_error': ('@_ZTISt15underflow_error',) + _RE,
    '@_ZTISt9bad_alloc': ('@_ZTISt9bad_alloc', '@_ZTISt9exception'), '@_ZTISt9exception': ('@_ZTISt9exception',),
    '@_ZTISt17bad_function_call': ('@_ZTISt17bad_function_call', '@_ZTISt9exception'), '@_ZTISt8bad_cast': ('@_ZTISt8bad_cast', '@_ZTISt9exception'),
}
def throw_std(kind):
    def f(e, st, args):
        st.exc = (0, ('std', kind)); st.exc_where = [f.fn.name for f in st.stack][-4:]; return None
    return f

NPOS = (1 << 64) - 1
class Str:
    """accessor for std::string at addr"""
    def __init__(s, e, st, a):
        if a is UNDEF: raise Violation('string operation on an uninitialised pointer')
        s.e = e; s.st = st; s.a = e.concretize(st, a) if is_sym(a) else a      # (a reference obtained through a symbolic index is an if-then-else of addresses)
    @property
    def p(s): return s.e.load(s.st, s.a, TInt(64))
    @property
    def len(s): return s.e.concretize(s.st, s.e.load(s.st, s.a + 8, TInt(64)))
    def cap(s): return 15 if s.p == s.a + 16 else s.e.load(s.st, s.a + 16, TInt(64))
    def bytes(s): return s.e.load_bytes(s.st, s.p, s.len) if s.len else []
    def set(s, bs):
        e, st = s.e, s.st
        if len(bs) > s.cap():
            np_ = e.alloc(st, len(bs) + 1, 'heap')
            if s.p != s.a + 16: m_free(e, st, [s.p])
            e.store(st, s.a, TInt(64), np_); e.store(st, s.a + 16, TInt(64), len(bs))
        e.store_bytes(st, s.p, list(bs) + [0]); e.store(st, s.a + 8, TInt(64), len(bs))
    def init_empty(s):
        s.e.store(s.st, s.a, TInt(64), s.a + 16); s.e.store(s.st, s.a + 8, TInt(64), 0); s.e.store_bytes(s.st, s.a + 16, [0])

def conc_eq(e, st, b, c):
    """is byte b equal to c (either may be symbolic)?  Both outcomes feasible -> NeedFork (the engine forks before the call)."""
    if b is UNDEF or c is UNDEF: raise Violation('uninitialised byte read by string operation')
    if not is_sym(b) and not is_sym(c): return (b & 0xff) == (c & 0xff)
    x = e.bv(b, 8) if not is_sym(b) or b.size() == 8 else z3.Extract(7, 0, b)
    y = e.bv(c & 0xff, 8) if not is_sym(c) else (c if c.size() == 8 else z3.Extract(7, 0, c))
    t = e.feasible(st, x == y); f = e.feasible(st, x != y)
    if t and f: raise NeedFork(x == y)
    return t
FORCE_MODEL = set()      # models that replace a module definition (none so far)
class ForkOn(Exception):
    def __init__(s, cond): s.cond = cond
class Block(Exception):
    def __init__(s, reason): s.reason = reason
class NeedFork(Exception):
    def __init__(s, cond): s.cond = cond

def m_malloc(e, st, args):
    n = e.concretize(st, args[0]); return e.alloc(st, max(n, 1), 'heap')
def m_free(e, st, args):
    a = args[0]
    if a is UNDEF: raise Violation('free of uninitialised pointer')
    a = e.concretize(st, a)
    if a == 0: return None
    o = st.objs.get(a)
    if o is None or o[1] != 'heap': raise Violation('free of non-heap pointer 0x%x' % a)
    if not o[2]: raise Violation('double free')
    st.objs[a] = (o[0], o[1], False); return None
def m_find_c(e, st, args):
    s_ = Str(e, st, args[0]); c = args[1]; pos = e.concretize(st, args[2]); bs = s_.bytes()
    for i in range(pos, len(bs)):
        if conc_eq(e, st, bs[i], c): return i
    return NPOS
def m_find_s(e, st, args):
    s_ = Str(e, st, args[0]); pos = e.concretize(st, args[2]); n = e.concretize(st, args[3]); bs = s_.bytes()
    pat = e.load_bytes(st, args[1], n) if n else []
    if n == 0: return pos if pos <= len(bs) else NPOS
    for i in range(pos, len(bs) - n + 1):
        if all(conc_eq(e, st, bs[i + k], pat[k]) for k in range(n)): return i
    return NPOS
def m_ffno_c(e, st, args):
    s_ = Str(e, st, args[0]); c = args[1]; pos = e.concretize(st, args[2]); bs = s_.bytes()
    for i in range(pos, len(bs)):
        if not conc_eq(e, st, bs[i], c): return i
    return NPOS
def m_flno_c(e, st, args):
    s_ = Str(e, st, args[0]); c = args[1]; pos = e.concretize(st, args[2]); bs = s_.bytes()
    if not bs: return NPOS
    i = min(pos, len(bs) - 1)
    while i >= 0:
        if not conc_eq(e, st, bs[i], c): return i
        i -= 1
    return NPOS
def m_substr(e, st, args):
    ret = Str(e, st, args[0]); s_ = Str(e, st, args[1]); pos = e.concretize(st, args[2]); n = e.concretize(st, args[3])
    if pos > s_.len: st.exc = (0, ('std', 'out_of_range')); return None
    bs = s_.bytes()[pos:pos + min(n, s_.len - pos)]
    ret.init_empty(); ret.set(bs); return None
def cmp_bytes(e, st, a, b):
    for x, y in zip(a, b):
        if is_sym(x) or is_sym(y):
            if x is UNDEF or y is UNDEF: raise Violation('uninitialised byte compared')
            xx, yy = e.bv(x, 8), e.bv(y, 8)
            eq = e.feasible(st, xx == yy); ne = e.feasible(st, xx != yy)
            if eq and ne: raise NeedFork(xx == yy)
            if eq: continue
            lt = e.feasible(st, z3.ULT(xx, yy)); gt = e.feasible(st, z3.UGT(xx, yy))
            if lt and gt: raise NeedFork(z3.ULT(xx, yy))
            return 0xffffffff if lt else 1
        if x != y: return 0xffffffff if x < y else 1
    return 0 if len(a) == len(b) else (0xffffffff if len(a) < len(b) else 1)
def cstr(e, st, a):
    out = []
    while True:
        b = e.load_bytes(st, a + len(out), 1)[0]
        if conc_eq(e, st, b, 0): return out
        out.append(b)
def m_compare_cs(e, st, args):
    return cmp_bytes(e, st, Str(e, st, args[0]).bytes(), cstr(e, st, args[1]))
def m_compare_pos(e, st, args):
    s_ = Str(e, st, args[0]); pos = e.concretize(st, args[1]); n = e.concretize(st, args[2])
    if pos > s_.len: st.exc = (0, ('std', 'out_of_range')); return None
    return cmp_bytes(e, st, s_.bytes()[pos:pos + n], cstr(e, st, args[3]))
def m_memcmp(e, st, args):
    n = e.concretize(st, args[2])
    return cmp_bytes(e, st, e.load_bytes(st, args[0], n), e.load_bytes(st, args[1], n)) if n else 0
def m_create(e, st, args):
    cap = e.load(st, args[1], TInt(64)); old = args[2]
    cap = e.concretize(st, cap)
    if cap > 0x3fffffffffffffff: st.exc = (0, ('std', 'length_error')); return None
    if cap > old and cap < 2 * old: cap = 2 * old; e.store(st, args[1], TInt(64), cap)
    return e.alloc(st, cap + 1, 'heap')
def m_assign(e, st, args):
    a = Str(e, st, args[0]); b = Str(e, st, args[1])
    if a.a != b.a: a.set(b.bytes())
    return None
def m_mutate(e, st, args):
    s_ = Str(e, st, args[0]); pos, l1, src, l2 = [e.concretize(st, x) for x in args[1:5]]
    bs = s_.bytes(); mid = e.load_bytes(st, src, l2) if src and l2 else [UNDEF] * l2
    new = bs[:pos] + mid + bs[pos + l1:]
    ln = s_.len
    npn = e.alloc(st, max(len(new), 2 * s_.cap()) + 1, 'heap')
    if s_.p != s_.a + 16: m_free(e, st, [s_.p])
    e.store(st, s_.a, TInt(64), npn); e.store(st, s_.a + 16, TInt(64), max(len(new), 2 * 15))
    e.store_bytes(st, npn, new)
    return None
def m_reserve(e, st, args):
    s_ = Str(e, st, args[0]); n = e.concretize(st, args[1])
    if n > s_.cap():
        bs = s_.bytes(); npn = e.alloc(st, n + 1, 'heap')
        if s_.p != s_.a + 16: m_free(e, st, [s_.p])
        e.store(st, s_.a, TInt(64), npn); e.store(st, s_.a + 16, TInt(64), n); e.store_bytes(st, npn, bs + [0])
    return None
def m_strtol(e, st, args):
    bs = cstr(e, st, args[0]); i = 0; neg = False; v = 0; any_ = False
    def isc(b, lo, hi):
        if is_sym(b):
            x = e.bv(b, 8); c = z3.And(z3.UGE(x, lo), z3.ULE(x, hi))
            t = e.feasible(st, c); f = e.feasible(st, z3.Not(c))
            if t and f: raise NeedFork(c)
            return t
        return lo <= b <= hi
    while i < len(bs) and (isc(bs[i], 32, 32) or isc(bs[i], 9, 13)): i += 1
    if i < len(bs) and (isc(bs[i], 43, 43) or isc(bs[i], 45, 45)):
        neg = isc(bs[i], 45, 45); i += 1
    while i < len(bs) and isc(bs[i], 48, 57):
        any_ = True
        d = bs[i]
        if is_sym(d) or is_sym(v):
            v = z3.simplify(e.bv(v, 64) * 10 + z3.ZeroExt(56, e.bv(d, 8)) - 48)
        else:
            v = v * 10 + (d - 48)
        i += 1
    if args[1]: e.store(st, args[1], TInt(64), args[0] + (i if any_ else 0))
    if is_sym(v):
        if i > 18: raise Unsupported('symbolic strtol overflow')
        return z3.simplify(-v if neg else v)
    if v > 0x7fffffffffffffff: e.store(st, e.errno_addr(st), TInt(32), 34); v = 0x7fffffffffffffff
    return (-v if neg else v) & ((1 << 64) - 1)
def m_errno(e, st, args): return e.errno_addr(st)
def errno_addr(e, st):
    if not hasattr(st, 'errno'): st.errno = e.alloc(st, 4, 'global'); e.store(st, st.errno, TInt(32), 0)
    return st.errno
Engine.errno_addr = errno_addr
def m_throw(e, st, args):
    st.exc = (args[0], args[1]); st.exc_where = [f.fn.name for f in st.stack][-4:]; return None
def m_begin_catch(e, st, args):
    st.caught.append(st.inflight); return args[0]
def m_end_catch(e, st, args):
    if st.caught: st.caught.pop()
    return None
def m_rethrow(e, st, args):
    st.exc = st.caught[-1]; return None
def m_rb_insert(e, st, args):
    args = [e.concretize(st, a) if is_sym(a) else a for a in args]      # iterator values may be an if-then-else of node addresses
    left, x, p, h = args; I = TInt(64)
    e.store(st, x + 8, I, p); e.store(st, x + 16, I, 0); e.store(st, x + 24, I, 0); e.store(st, x, TInt(32), 1)   # every real node black: only the header is red (decrement relies on it)
    if left & 1:
        e.store(st, p + 16, I, x)
        if p == h: e.store(st, h + 8, I, x); e.store(st, h + 24, I, x)
        elif p == e.load(st, h + 16, I): e.store(st, h + 16, I, x)
    else:
        e.store(st, p + 24, I, x)
        if p == e.load(st, h + 24, I): e.store(st, h + 24, I, x)
    return None
def m_rb_inc(e, st, args):
    x = e.concretize(st, args[0]) if is_sym(args[0]) else args[0]; I = TInt(64); L = lambda a: e.load(st, a, I)
    if L(x + 24):
        x = L(x + 24)
        while L(x + 16): x = L(x + 16)
        return x
    y = L(x + 8)
    while x == L(y + 24): x = y; y = L(y + 8)
    if L(x + 24) != y: x = y
    return x
def m_rb_dec(e, st, args):
    x = e.concretize(st, args[0]) if is_sym(args[0]) else args[0]; I = TInt(64); L = lambda a: e.load(st, a, I)
    if e.load(st, x, TInt(32)) == 0 and L(L(x + 8) + 8) == x: return L(x + 24)
    if L(x + 16):
        y = L(x + 16)
        while L(y + 24): y = L(y + 24)
        return y
    y = L(x + 8)
    while x == L(y + 16): x = y; y = L(y + 8)
    return y

def m_rb_erase(e, st, args):
    """_Rb_tree_rebalance_for_erase(z, header): plain (unbalanced) BST deletion; returns z. header: +8 root, +16 leftmost, +24 rightmost."""
    args = [e.concretize(st, a) if is_sym(a) else a for a in args]
    z, h = args; I = TInt(64)
    L = lambda a: e.load(st, a, I)
    def S(a, v): e.store(st, a, I, v)
    zl, zr, zp = L(z + 16), L(z + 24), L(z + 8)
    if zl == 0 or zr == 0:
        x = zr if zl == 0 else zl
    else:
        y = zr
        while L(y + 16): y = L(y + 16)
        if L(y + 8) != z:
            yp = L(y + 8); yr = L(y + 24)
            S(yp + 16, yr)
            if yr: S(yr + 8, yp)
            S(y + 24, zr); S(zr + 8, y)
        S(y + 16, zl); S(zl + 8, y)
        x = y
    if L(h + 8) == z: S(h + 8, x)
    elif L(zp + 16) == z: S(zp + 16, x)
    else: S(zp + 24, x)
    if x: S(x + 8, zp)
    if L(h + 16) == z:
        if zr == 0: S(h + 16, zp)
        else:
            m = zr
            while L(m + 16): m = L(m + 16)
            S(h + 16, m)
    if L(h + 24) == z:
        if zl == 0: S(h + 24, zp)
        else:
            m = zl
            while L(m + 24): m = L(m + 24)
            S(h + 24, m)
    return z
BUILTIN_MODELS = {
    '_Znwm': m_malloc, '_Znam': m_malloc, 'malloc': m_malloc, '_ZdlPv': m_free, '_ZdaPv': m_free, 'free': m_free,
    '_ZNKSt7__cxx1112basic_stringIcSt11char_traitsIcESaIcEE4findEcm': m_find_c,
    '_ZNKSt7__cxx1112basic_stringIcSt11char_traitsIcESaIcEE4findEPKcmm': m_find_s,
    '_ZNKSt7__cxx1112basic_stringIcSt11char_traitsIcESaIcEE17find_first_not_ofEcm': m_ffno_c,
    '_ZNKSt7__cxx1112basic_stringIcSt11char_traitsIcESaIcEE16find_last_not_ofEcm': m_flno_c,
    '_ZNKSt7__cxx1112basic_stringIcSt11char_traitsIcESaIcEE6substrEmm': m_substr,
    '_ZNKSt7__cxx1112basic_stringIcSt11char_traitsIcESaIcEE7compareEPKc': m_compare_cs,
    '_ZNKSt7__cxx1112basic_stringIcSt11char_traitsIcESaIcEE7compareEmmPKc': m_compare_pos,
    '_ZNSt7__cxx1112basic_stringIcSt11char_traitsIcESaIcEE9_M_createERmm': m_create,
    '_ZNSt7__cxx1112basic_stringIcSt11char_traitsIcESaIcEE9_M_assignERKS4_': m_assign,
    '_ZNSt7__cxx1112basic_stringIcSt11char_traitsIcESaIcEE9_M_mutateEmmPKcm': m_mutate,
    '_ZNSt7__cxx1112basic_stringIcSt11char_traitsIcESaIcEE7reserveEm': m_reserve,
    'memcmp': m_memcmp, 'bcmp': m_memcmp, 'strtol': m_strtol, 'strtoll': m_strtol, 'strtoul': m_strtol, 'strtoull': m_strtol,   # (identical below 19 digits)
    '__errno_location': m_errno,
    '__cxa_allocate_exception': m_malloc, '__cxa_free_exception': lambda e, st, a: None, '__cxa_throw': m_throw,
    '__cxa_begin_catch': m_begin_catch, '__cxa_end_catch': m_end_catch, '__cxa_rethrow': m_rethrow,
    '__cxa_atexit': lambda e, st, a: 0,
    '_ZSt20__throw_out_of_rangePKc': throw_std('out_of_range'), '_ZSt24__throw_out_of_range_fmtPKcz': throw_std('out_of_range'),
    '_ZSt24__throw_invalid_argumentPKc': throw_std('invalid_argument'), '_ZSt20__throw_length_errorPKc': throw_std('length_error'),
    '_ZSt19__throw_logic_errorPKc': throw_std('logic_error'), '_ZSt17__throw_bad_allocv': throw_std('bad_alloc'),
    '_ZSt28__throw_bad_array_new_lengthv': throw_std('bad_alloc'),
    '_ZNSt12out_of_rangeC1EPKc': lambda e, st, a: None, '_ZNSt12out_of_rangeD1Ev': lambda e, st, a: None,
    '_ZSt29_Rb_tree_insert_and_rebalancebPSt18_Rb_tree_node_baseS0_RS_': m_rb_insert,
    '_ZSt18_Rb_tree_incrementPSt18_Rb_tree_node_base': m_rb_inc, '_ZSt18_Rb_tree_incrementPKSt18_Rb_tree_node_base': m_rb_inc,
    '_ZSt18_Rb_tree_decrementPSt18_Rb_tree_node_base': m_rb_dec, '_ZSt18_Rb_tree_decrementPKSt18_Rb_tree_node_base': m_rb_dec,
    '_ZSt28_Rb_tree_rebalance_for_erasePSt18_Rb_tree_node_baseRS_': m_rb_erase,
}


# ---------------- threads / sync models ----------------
I32 = TInt(32); I64 = TInt(64)
def cur(st): return st.threads[st.cur]
def m_mutex_lock(e, st, args):
    m = args[0]; th = cur(st)
    if e.load(st, m, I32) != 0: raise Block(('mutex', m))
    e.store(st, m, I32, 1); th.blocked = None; th.locks = th.locks | {m}; e.vc_acquire(st, th.tid, ('m', m)); st.want_sched = True; return 0
def m_mutex_trylock(e, st, args):
    m = args[0]
    if e.load(st, m, I32) != 0: st.want_sched = True; return 16
    e.store(st, m, I32, 1); cur(st).locks = cur(st).locks | {m}; e.vc_acquire(st, cur(st).tid, ('m', m)); st.want_sched = True; return 0
def m_mutex_unlock(e, st, args):
    e.vc_release(st, cur(st).tid, ('m', args[0])); e.store(st, args[0], I32, 0); cur(st).locks = cur(st).locks - {args[0]}; st.want_sched = True; return 0
def cvs(st, a):
    if a not in st.cv: st.cv[a] = (set(), set())
    return st.cv[a]
def m_cv_ctor(e, st, args): e.store_bytes(st, args[0], [0] * 48); return None
def m_notify_all(e, st, args):
    w, k = cvs(st, args[0]); k |= w; w.clear(); st.want_sched = True; return None
def m_notify_one(e, st, args):
    w, k = cvs(st, args[0])
    if w: t = min(w); w.discard(t); k.add(t)
    st.want_sched = True; return None
def relock(e, st, th, mutex, ret):
    if e.load(st, mutex, I32) != 0:
        th.phase = ('relock', mutex, ret); raise Block(('mutex', mutex))
    e.store(st, mutex, I32, 1); th.phase = None; th.blocked = None; th.locks = th.locks | {mutex}; e.vc_acquire(st, th.tid, ('m', mutex)); st.want_sched = True; return ret
def m_cv_wait(e, st, args):
    cv, lk = args; th = cur(st)
    if th.phase is None:
        mutex = e.load(st, lk, I64); e.vc_release(st, th.tid, ('m', mutex)); e.store(st, mutex, I32, 0); th.locks = th.locks - {mutex}
        cvs(st, cv)[0].add(th.tid); th.phase = ('cvwait', cv, mutex); raise Block(('cond', cv, False))
    if th.phase[0] == 'cvwait':
        cvs(st, cv)[1].discard(th.tid); return relock(e, st, th, th.phase[2], None)
    return relock(e, st, th, th.phase[1], None)
def m_cond_clockwait(e, st, args):
    cv, mutex, clk, ts = args; th = cur(st)
    if th.phase is None:
        e.vc_release(st, th.tid, ('m', mutex)); e.store(st, mutex, I32, 0); th.locks = th.locks - {mutex}
        cvs(st, cv)[0].add(th.tid); th.phase = ('cvwait', cv, mutex); raise Block(('cond', cv, True))
    if th.phase[0] == 'cvwait':
        w, k = cvs(st, cv)
        if th.tid in k: k.discard(th.tid); ret = 0
        else:
            w.discard(th.tid); th.timeouts += 1; ret = 110
            dl = e.load(st, ts, I64) * 1000000000 + e.load(st, ts + 8, I64)
            st.now = max(getattr(st, 'now', 0), dl) + 1
        return relock(e, st, th, mutex, ret)
    return relock(e, st, th, th.phase[1], th.phase[2])
def m_now(e, st, args):
    st.now = getattr(st, 'now', 0) + 1; return st.now
def m_start_thread(e, st, args):
    thr, uptr, dep = args
    state = e.load(st, uptr, I64); e.store(st, uptr, I64, 0)
    t = Thread(len(st.threads)); st.threads.append(t)
    vt = e.load(st, state, I64); fa = e.load(st, vt + 16, I64)
    fn = e.m.funcs[e.addr2f[fa]]
    fr = Frame(fn); fr.regs[fn.params[0][1]] = state; t.stack.append(fr)
    e.store(st, thr, I64, t.tid)
    pv = e.vc_of(st, cur(st).tid); st.vc = dict(st.vc); cv_ = dict(pv); cv_[t.tid] = 1; st.vc[t.tid] = cv_; w = dict(pv); w[cur(st).tid] = w.get(cur(st).tid, 0) + 1; st.vc[cur(st).tid] = w
    st.want_sched = True; return None
def m_join(e, st, args):
    thr = args[0]; tid = e.load(st, thr, I64); th = cur(st)
    if tid == 0: st.exc = (0, ('std', 'system_error')); return None
    if not st.threads[tid].finished: raise Block(('join', tid))
    th.blocked = None; e.store(st, thr, I64, 0)
    jv = e.vc_of(st, tid); mv = dict(e.vc_of(st, th.tid))
    for k, c in jv.items():
        if mv.get(k, 0) < c: mv[k] = c
    st.vc = dict(st.vc); st.vc[th.tid] = mv            # join: everything the joined thread did happens-before what the joiner does next
    return None
SYNC_MODELS = {
    'pthread_mutex_lock': m_mutex_lock, 'pthread_mutex_trylock': m_mutex_trylock, 'pthread_mutex_unlock': m_mutex_unlock,
    '_ZNSt18condition_variableC1Ev': m_cv_ctor, '_ZNSt18condition_variableD1Ev': lambda e, st, a: None,
    '_ZNSt18condition_variable10notify_allEv': m_notify_all, '_ZNSt18condition_variable10notify_oneEv': m_notify_one,
    '_ZNSt18condition_variable4waitERSt11unique_lockISt5mutexE': m_cv_wait, 'pthread_cond_clockwait': m_cond_clockwait,
    '_ZNSt6chrono3_V212steady_clock3nowEv': m_now,
    '_ZNSt6thread15_M_start_threadESt10unique_ptrINS_6_StateESt14default_deleteIS1_EEPFvvE': m_start_thread,
    '_ZNSt6thread4joinEv': m_join, '_ZNSt6thread6_StateD2Ev': lambda e, st, a: None,
}
SYNC_MODELS['pthread_self'] = lambda e, st, a: st.cur + 1
BUILTIN_MODELS.update(SYNC_MODELS)
BUILTIN_MODELS.update({'LogPrintfFunc': lambda e, st, a: None, '_ZNSt8ios_base4InitC1Ev': lambda e, st, a: None, '_ZNSt8ios_base4InitD1Ev': lambda e, st, a: None})

# ---------------- ucontext ----------------
def m_getcontext(e, st, args): return 0
def m_makecontext(e, st, args):
    ctx, fn = args[0], args[1]; fargs = args[3:]
    f = e.m.funcs[e.addr2f[fn]]
    fr = Frame(f)
    for (t, nm, info), a in zip(f.params, fargs): fr.regs[nm] = a
    link = e.load(st, ctx + 8, I64)
    st.ctx[ctx] = ([fr], link); return None
def m_swapcontext(e, st, args):
    old, new = args; th = cur(st)
    if new not in st.ctx: raise Violation('swapcontext to a context that was never made/saved')
    caller = th.stack[-1]
    ci = caller.fn.blocks[caller.block][caller.ip - 1]
    if ci.res: caller.regs[ci.res] = 0
    oldlink = st.ctx[old][1] if old in st.ctx else 0
    st.ctx[old] = (th.stack, oldlink)
    if th.ctx_cur is None: th.ctx_root = old
    th.stack = st.ctx[new][0]; th.ctx_cur = new if new != th.ctx_root else None
    return NORESULT
def m_gettimeofday(e, st, args):
    tv = args[0]
    sec = e.new_sym(64, 'tv_sec'); usec = e.new_sym(64, 'tv_usec')
    e.add_pc(st, z3.ULT(sec, 4000000000)); e.add_pc(st, z3.ULT(usec, 1000000))
    last = getattr(st, 'last_sec', None)
    if last is not None: e.add_pc(st, z3.UGE(sec, last))
    st.last_sec = sec
    e.store(st, tv, I64, sec); e.store(st, tv + 8, I64, usec); return 0
# ---------------- <cctype> (C locale) ----------------
def _rng(x, lo, hi): return z3.And(x >= lo, x <= hi)        # signed 32-bit compare: negative (char >= 0x80) arguments classify as "no"
_CT = {
    'isprint': lambda x: _rng(x, 0x20, 0x7e), 'isgraph': lambda x: _rng(x, 0x21, 0x7e), 'isdigit': lambda x: _rng(x, 48, 57),
    'isspace': lambda x: z3.Or(_rng(x, 9, 13), x == 32), 'isupper': lambda x: _rng(x, 65, 90), 'islower': lambda x: _rng(x, 97, 122),
    'isalpha': lambda x: z3.Or(_rng(x, 65, 90), _rng(x, 97, 122)), 'isalnum': lambda x: z3.Or(_rng(x, 65, 90), _rng(x, 97, 122), _rng(x, 48, 57)),
    'isxdigit': lambda x: z3.Or(_rng(x, 48, 57), _rng(x, 65, 70), _rng(x, 97, 102)), 'iscntrl': lambda x: z3.Or(_rng(x, 0, 31), x == 127),
    'ispunct': lambda x: z3.Or(_rng(x, 33, 47), _rng(x, 58, 64), _rng(x, 91, 96), _rng(x, 123, 126)), 'isblank': lambda x: z3.Or(x == 9, x == 32),
}
def ctype_model(name):
    pred = _CT[name]
    def f(e, st, args):
        x = args[0]
        if x is UNDEF: raise Violation('uninitialised value passed to %s' % name)
        c = z3.simplify(pred(e.bv(x, 32)))
        if z3.is_true(c): return 1
        if z3.is_false(c): return 0
        return z3.If(c, z3.BitVecVal(1, 32), z3.BitVecVal(0, 32))
    return f
def m_toupper(e, st, args):
    x = e.bv(args[0], 32); r = z3.simplify(z3.If(_rng(x, 97, 122), x - 32, x)); return r.as_long() if z3.is_bv_value(r) else r
def m_tolower(e, st, args):
    x = e.bv(args[0], 32); r = z3.simplify(z3.If(_rng(x, 65, 90), x + 32, x)); return r.as_long() if z3.is_bv_value(r) else r
BUILTIN_MODELS.update({k: ctype_model(k) for k in _CT}); BUILTIN_MODELS.update({'toupper': m_toupper, 'tolower': m_tolower})
# ---------------- more std::string members (libstdc++ cxx11 ABI, out-of-line in libstdc++.so) ----------------
_SP = '_ZNSt7__cxx1112basic_stringIcSt11char_traitsIcESaIcEE'; _SK = '_ZNKSt7__cxx1112basic_stringIcSt11char_traitsIcESaIcEE'
def _in_set(e, st, b, pat):
    for c in pat:
        if conc_eq(e, st, b, c): return True
    return False
def m_find_first_of(e, st, args):
    s_ = Str(e, st, args[0]); pos = e.concretize(st, args[2]); n = e.concretize(st, args[3]); bs = s_.bytes(); pat = e.load_bytes(st, args[1], n) if n else []
    for i in range(pos, len(bs)):
        if _in_set(e, st, bs[i], pat): return i
    return NPOS
def m_find_first_not_of(e, st, args):
    s_ = Str(e, st, args[0]); pos = e.concretize(st, args[2]); n = e.concretize(st, args[3]); bs = s_.bytes(); pat = e.load_bytes(st, args[1], n) if n else []
    for i in range(pos, len(bs)):
        if not _in_set(e, st, bs[i], pat): return i
    return NPOS
def m_find_last_not_of(e, st, args):
    s_ = Str(e, st, args[0]); pos = e.concretize(st, args[2]); n = e.concretize(st, args[3]); bs = s_.bytes(); pat = e.load_bytes(st, args[1], n) if n else []
    if not bs: return NPOS
    i = min(pos, len(bs) - 1)
    while i >= 0:
        if not _in_set(e, st, bs[i], pat): return i
        i -= 1
    return NPOS
def m_find_last_of(e, st, args):
    s_ = Str(e, st, args[0]); pos = e.concretize(st, args[2]); n = e.concretize(st, args[3]); bs = s_.bytes(); pat = e.load_bytes(st, args[1], n) if n else []
    if not bs: return NPOS
    i = min(pos, len(bs) - 1)
    while i >= 0:
        if _in_set(e, st, bs[i], pat): return i
        i -= 1
    return NPOS
def m_rfind_c(e, st, args):
    s_ = Str(e, st, args[0]); c = args[1]; pos = e.concretize(st, args[2]); bs = s_.bytes()
    if not bs: return NPOS
    i = min(pos, len(bs) - 1)
    while i >= 0:
        if conc_eq(e, st, bs[i], c): return i
        i -= 1
    return NPOS
def m_rfind_s(e, st, args):
    s_ = Str(e, st, args[0]); pos = e.concretize(st, args[2]); n = e.concretize(st, args[3]); bs = s_.bytes(); pat = e.load_bytes(st, args[1], n) if n else []
    if n > len(bs): return NPOS
    i = min(pos, len(bs) - n)
    while i >= 0:
        if all(conc_eq(e, st, bs[i + k], pat[k]) for k in range(n)): return i
        i -= 1
    return NPOS
def _str_replace(e, st, self, pos, n1, new):
    s_ = Str(e, st, self); ln = s_.len
    if pos > ln: st.exc = (0, ('std', 'out_of_range')); st.exc_where = [f.fn.name for f in st.stack][-4:]; return None
    n1 = min(n1, ln - pos); bs = s_.bytes()
    s_.set(bs[:pos] + list(new) + bs[pos + n1:]); return self
def m_replace(e, st, args):       # _M_replace(pos, len1, s, len2)
    pos, n1, n2 = e.concretize(st, args[1]), e.concretize(st, args[2]), e.concretize(st, args[4])
    new = e.load_bytes(st, args[3], n2) if n2 else []
    return _str_replace(e, st, args[0], pos, n1, new)
def m_replace_aux(e, st, args):   # _M_replace_aux(pos, n1, n2, c)
    pos, n1, n2 = e.concretize(st, args[1]), e.concretize(st, args[2]), e.concretize(st, args[3])
    c = args[4] if not is_sym(args[4]) else z3.Extract(7, 0, args[4]) if args[4].size() > 8 else args[4]
    if not is_sym(c): c &= 0xff
    return _str_replace(e, st, args[0], pos, n1, [c] * n2)
def m_erase(e, st, args):         # _M_erase(pos, n)
    s_ = Str(e, st, args[0]); pos, n = e.concretize(st, args[1]), e.concretize(st, args[2]); bs = s_.bytes()
    s_.set(bs[:pos] + bs[pos + n:]); return None
def m_append(e, st, args):        # _M_append(s, n)
    s_ = Str(e, st, args[0]); n = e.concretize(st, args[2]); new = e.load_bytes(st, args[1], n) if n else []
    s_.set(s_.bytes() + new); return args[0]
def m_construct_nc(e, st, args):  # _M_construct(n, c)
    s_ = Str(e, st, args[0]); n = e.concretize(st, args[1]); c = args[2]
    if not is_sym(c): c &= 0xff
    s_.init_empty(); s_.set([c] * n); return None
def m_str_ctor_cstr(e, st, args): # basic_string(const char*, const allocator&)
    if args[1] == 0: st.exc = (0, ('std', 'logic_error')); st.exc_where = [f.fn.name for f in st.stack][-4:]; return None
    s_ = Str(e, st, args[0]); s_.init_empty(); s_.set(cstr(e, st, args[1])); return None
def m_str_dtor(e, st, args):
    s_ = Str(e, st, args[0])
    if s_.p != s_.a + 16: m_free(e, st, [s_.p])
    return None
def m_compare_ss(e, st, args):
    return cmp_bytes(e, st, Str(e, st, args[0]).bytes(), Str(e, st, args[1]).bytes())
def m_compare_pos_s(e, st, args):  # compare(pos, n, const string&)
    s_ = Str(e, st, args[0]); pos = e.concretize(st, args[1]); n = e.concretize(st, args[2])
    if pos > s_.len: st.exc = (0, ('std', 'out_of_range')); return None
    return cmp_bytes(e, st, s_.bytes()[pos:pos + n], Str(e, st, args[3]).bytes())
def m_strlen(e, st, args): return len(cstr(e, st, args[0]))
def m_resize(e, st, args):
    s_ = Str(e, st, args[0]); n = e.concretize(st, args[1]); c = args[2]; bs = s_.bytes()
    if not is_sym(c): c &= 0xff
    s_.set(bs[:n] + [c] * max(0, n - len(bs))); return None
BUILTIN_MODELS.update({
    _SK + '13find_first_ofEPKcmm': m_find_first_of, _SK + '17find_first_not_ofEPKcmm': m_find_first_not_of, _SK + '16find_last_not_ofEPKcmm': m_find_last_not_of,
    _SK + '12find_last_ofEPKcmm': m_find_last_of, _SK + '5rfindEcm': m_rfind_c, _SK + '5rfindEPKcmm': m_rfind_s,
    _SP + '10_M_replaceEmmPKcm': m_replace, _SP + '14_M_replace_auxEmmmc': m_replace_aux, _SP + '8_M_eraseEmm': m_erase, _SP + '9_M_appendEPKcm': m_append,
    _SP + '12_M_constructEmc': m_construct_nc, _SP + 'C2EPKcRKS3_': m_str_ctor_cstr, _SP + 'C1EPKcRKS3_': m_str_ctor_cstr, _SP + 'D2Ev': m_str_dtor, _SP + 'D1Ev': m_str_dtor,
    _SK + '7compareERKS4_': m_compare_ss, _SK + '7compareEmmRKS4_': m_compare_pos_s, _SP + '6resizeEmc': m_resize, 'strlen': m_strlen,
})
# ---------------- std::ostringstream / std::stringstream (output side) ----------------
# The embedded std::stringbuf keeps its text in its own std::string (offset +72 inside the stringbuf); the model appends there and
# maintains pbase/pptr/epptr so that the INLINE str() of libstdc++ 12 reads the right bytes. Formatting flags are ignored (decimal only).
def _stream_sb(st, os_):
    sb = getattr(st, 'streams', {}).get(os_)
    if sb is None: raise Unsupported('operator<< on an unmodelled ostream object 0x%x' % os_)
    return sb
def _stream_put(e, st, os_, bs):
    sb = _stream_sb(st, os_); s_ = Str(e, st, sb + 72)
    s_.set(s_.bytes() + list(bs))
    p = s_.p; e.store(st, sb + 32, I64, p); e.store(st, sb + 40, I64, p + s_.len); e.store(st, sb + 48, I64, p + s_.cap())   # pbase, pptr, epptr
    return os_
def _fake_ctype(e, st):
    if not hasattr(st, 'fake_ctype'):
        a = e.alloc(st, 600, 'global'); e.store_bytes(st, a, [0] * 600); e.store_bytes(st, a + 56, [1]); e.store_bytes(st, a + 57, list(range(256))); st.fake_ctype = a
    return st.fake_ctype
def _stream_init(e, st, obj, size, os_off, sb_off, ios_off):
    e.store_bytes(st, obj, [0] * size)
    vt = e.alloc(st, 64, 'global'); e.store_bytes(st, vt, [0] * 64); e.store(st, vt, I64, ios_off - os_off)    # vbase offset at vptr[-3]
    e.store(st, obj + os_off, I64, vt + 24)
    if os_off: 
        vt2 = e.alloc(st, 64, 'global'); e.store_bytes(st, vt2, [0] * 64); e.store(st, vt2, I64, ios_off); e.store(st, obj, I64, vt2 + 24)
    Str(e, st, obj + sb_off + 72).init_empty()
    e.store(st, obj + ios_off + 240, I64, _fake_ctype(e, st))       # basic_ios::_M_ctype (for widen('\n') in std::endl)
    if not hasattr(st, 'streams'): st.streams = {}
    st.streams = dict(st.streams); st.streams[obj + os_off] = obj + sb_off
    return None
def m_oss_ctor(e, st, args): return _stream_init(e, st, args[0], 376, 0, 8, 112)
def m_ss_ctor(e, st, args): return _stream_init(e, st, args[0], 392, 16, 24, 128)
def m_oss_dtor(e, st, args): m_str_dtor(e, st, [args[0] + 8 + 72]); return None
def m_ss_dtor(e, st, args): m_str_dtor(e, st, [args[0] + 24 + 72]); return None
def m_ostream_insert(e, st, args):
    n = e.concretize(st, args[2]); return _stream_put(e, st, args[0], e.load_bytes(st, args[1], n) if n else [])
def _fmt_int(bits, signed):
    def f(e, st, args):
        v = args[1]
        if is_sym(v): v = e.concretize(st, v)
        v &= (1 << bits) - 1
        if signed and v >> (bits - 1): v -= 1 << bits
        return _stream_put(e, st, args[0], list(str(v).encode()))
    return f
def m_os_put(e, st, args):
    c = args[1]
    if not is_sym(c): c &= 0xff
    elif c.size() > 8: c = z3.Extract(7, 0, c)
    return _stream_put(e, st, args[0], [c])
BUILTIN_MODELS.update({
    '_ZNSt7__cxx1119basic_ostringstreamIcSt11char_traitsIcESaIcEEC1Ev': m_oss_ctor, '_ZNSt7__cxx1119basic_ostringstreamIcSt11char_traitsIcESaIcEED1Ev': m_oss_dtor,
    '_ZNSt7__cxx1118basic_stringstreamIcSt11char_traitsIcESaIcEEC1Ev': m_ss_ctor, '_ZNSt7__cxx1118basic_stringstreamIcSt11char_traitsIcESaIcEED1Ev': m_ss_dtor,
    '_ZSt16__ostream_insertIcSt11char_traitsIcEERSt13basic_ostreamIT_T0_ES6_PKS3_l': m_ostream_insert,
    '_ZNSolsEi': _fmt_int(32, True), '_ZNSolsEj': _fmt_int(32, False), '_ZNSo9_M_insertImEERSoT_': _fmt_int(64, False), '_ZNSo9_M_insertIlEERSoT_': _fmt_int(64, True),
    '_ZNSolsEs': _fmt_int(16, True), '_ZNSolsEt': _fmt_int(16, False), '_ZNSo9_M_insertIbEERSoT_': _fmt_int(8, False),
    '_ZNSo3putEc': m_os_put, '_ZNSo5flushEv': lambda e, st, a: a[0], '_ZNKSt5ctypeIcE13_M_widen_initEv': lambda e, st, a: None,
    '_ZNSt8ios_baseD2Ev': lambda e, st, a: None, '_ZNSt6localeD1Ev': lambda e, st, a: None, '_ZNSt6localeC1Ev': lambda e, st, a: None,
    '_ZNSt9basic_iosIcSt11char_traitsIcEE5clearESt12_Ios_Iostate': lambda e, st, a: None, '_ZSt16__throw_bad_castv': throw_std('bad_cast'),
    '_ZSt25__throw_bad_function_callv': throw_std('bad_function_call'), '_ZSt9terminatev': lambda e, st, a: (_ for _ in ()).throw(Violation('std::terminate called')),
    '__cxa_pure_virtual': lambda e, st, a: (_ for _ in ()).throw(Violation('pure virtual function called')),
    '_ZNSt9exceptionD2Ev': lambda e, st, a: None, '_ZNSt13runtime_errorD1Ev': lambda e, st, a: None, '_ZNSt13runtime_errorD2Ev': lambda e, st, a: None,
    '_ZNSt13runtime_errorC1EPKc': lambda e, st, a: None, '_ZNSt13runtime_errorC1ERKS_': lambda e, st, a: None,
    '_ZNSt13runtime_errorC2ERKNSt7__cxx1112basic_stringIcSt11char_traitsIcESaIcEEE': lambda e, st, a: None, '_ZNSt13runtime_errorC2EPKc': lambda e, st, a: None,
    '_ZNSt11logic_errorC1EPKc': lambda e, st, a: None, '_ZNSt11logic_errorD1Ev': lambda e, st, a: None, '_ZNSt11logic_errorC2EPKc': lambda e, st, a: None, '_ZNSt11logic_errorD2Ev': lambda e, st, a: None,
    '_ZNSt16invalid_argumentC1EPKc': lambda e, st, a: None, '_ZNSt16invalid_argumentD1Ev': lambda e, st, a: None,
})
STD_EXC_BASES.update({'bad_cast': ('@_ZTISt8bad_cast', '@_ZTISt9exception'), 'bad_function_call': ('@_ZTISt17bad_function_call', '@_ZTISt9exception'), 'system_error': ('@_ZTISt12system_error', '@_ZTISt13runtime_error', '@_ZTISt9exception')})
def m_localeconv(e, st, args):
    if not hasattr(st, 'lconv'):
        a = e.alloc(st, 128, 'global'); e.store_bytes(st, a, [0] * 128)
        dot = e.alloc(st, 2, 'global'); e.store_bytes(st, dot, [46, 0]); emp = e.alloc(st, 1, 'global'); e.store_bytes(st, emp, [0])
        e.store(st, a, I64, dot)
        for k in range(1, 10): e.store(st, a + 8 * k, I64, emp)
        st.lconv = a
    return st.lconv
def m_strerror(e, st, args):
    if not hasattr(st, 'strerr'): st.strerr = e.alloc(st, 8, 'global'); e.store_bytes(st, st.strerr, [ord('e'), ord('r'), ord('r'), 0, 0, 0, 0, 0])
    return st.strerr
def m_need_rehash(e, st, args):      # std::__detail::_Prime_rehash_policy::_M_need_rehash(n_bkt, n_elt, n_ins) -> pair<bool, size_t>
    this, n_bkt, n_elt, n_ins = [e.concretize(st, a) if is_sym(a) else a for a in args]
    if n_elt + n_ins > n_bkt:
        nb = max(2 * n_bkt + 1, n_elt + n_ins, 13); e.store(st, this + 8, I64, nb); return [1, nb]      # (bucket count need not be prime for correctness)
    return [0, 0]
def m_next_bkt(e, st, args):
    n = e.concretize(st, args[1]) if is_sym(args[1]) else args[1]; nb = max(n | 1, 13); e.store(st, args[0] + 8, I64, nb); return nb
BUILTIN_MODELS.update({'_ZNKSt8__detail20_Prime_rehash_policy14_M_need_rehashEmmm': m_need_rehash, '_ZNKSt8__detail20_Prime_rehash_policy11_M_next_bktEm': m_next_bkt})
BUILTIN_MODELS.update({'localeconv': m_localeconv, 'strerror': m_strerror})
BUILTIN_MODELS.update({'gettimeofday': m_gettimeofday})
BUILTIN_MODELS.update({'getcontext': m_getcontext, 'makecontext': m_makecontext, 'swapcontext': m_swapcontext})

def main():
    import argparse, json, os, resource
    ap = argparse.ArgumentParser()
    ap.add_argument('ll'); ap.add_argument('entry'); ap.add_argument('--json', default=None)
    ap.add_argument('--preempt', type=int, default=int(os.environ.get('VP_P', '1')))
    ap.add_argument('--timeouts', type=int, default=int(os.environ.get('VP_T', '1')))
    ap.add_argument('--max-paths', type=int, default=200000)
    ap.add_argument('--max-steps', type=int, default=2000000)
    ap.add_argument('--budget', type=float, default=3600.0)
    ap.add_argument('--stop-first', action='store_true'); ap.add_argument('--max-depth', type=int, default=600); ap.add_argument('--z3-timeout', type=int, default=0)
    a = ap.parse_args()
    t0 = time.time()
    m = ir2c.parse_module(open(a.ll).read())
    def mk():
        e = Engine(m); e.max_preempt = a.preempt; e.max_timeouts = a.timeouts; e.max_paths = a.max_paths; e.max_steps = a.max_steps; e.max_depth = a.max_depth
        if a.z3_timeout: e.solver.set('timeout', a.z3_timeout)
        e.deadline = t0 + a.budget; return e
    e = mk()
    out = {'entry': a.entry, 'status': 'ok', 'passes': 1}
    races = []
    try:
        v = e.explore('@' + a.entry)
        if e.races:
            for addr, (fn, tid, w, base) in sorted(e.races.items()):
                races.append({'addr': addr, 'object': base, 'offset': addr - base, 'kind': 'write' if w else 'read', 'thread': tid, 'fn': fn})
            racy = set(e.races); st1 = dict(e.stats); reached1 = set(e.reached)
            e2 = mk(); e2.racy_points = racy
            v = e2.explore('@' + a.entry)
            e2.reached |= reached1
            for k in ('paths', 'forks', 'solver_calls', 'solver_time', 'instrs'): e2.stats[k] += st1.get(k, 0)
            e = e2; out['passes'] = 2
    except Unsupported as u:
        out['status'] = 'inconclusive'; out['reason'] = str(u)
    except RecursionError as u:
        out['status'] = 'inconclusive'; out['reason'] = 'python recursion limit'
    out['stats'] = e.stats; out['violations'] = e.violations; out['races'] = races; out['reached'] = sorted(e.reached)
    out['sample'] = e.sample; out['wall_s'] = time.time() - t0
    out['functions'] = sorted(e.fn_seen)[:400]; out['n_functions'] = len(e.fn_seen)
    out['models_used'] = sorted(e.models_used)
    out['peak_rss_mb'] = resource.getrusage(resource.RUSAGE_SELF).ru_maxrss // 1024
    txt = json.dumps(out, indent=1, default=str)
    if a.json: open(a.json, 'w').write(txt)
    else: print(txt)
    sys.exit(0 if out['status'] == 'ok' and not e.violations and not races else (2 if out['status'] != 'ok' else 1))

if __name__ == '__main__':
    sys.setrecursionlimit(20000)
    main()
