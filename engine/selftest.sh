#!/bin/bash
# engine self-tests: models vs. the real library semantics (run by setup_cmd)
set -e
D=$(mktemp -d /tmp/vp_selftest_XXXX); trap 'rm -rf "$D"' EXIT
H="$(cd "$(dirname "$0")/.." && pwd)"
clang++-14 -std=c++11 -O1 -fno-access-control -DNDEBUG -DSYMIR -w -I"$H/harness" -S -emit-llvm -o "$D/mt.ll" "$H/engine/selftest/map_test.cpp"
python3-vt "$H/engine/symir.py" "$D/mt.ll" h_map_selftest --json "$D/o.json" >/dev/null || { echo "selftest: symir map model FAILED"; cat "$D/o.json" | head -40; exit 1; }
g++ -std=c++11 -O1 -DVP_NATIVE -DVP_ENTRY=h_map_selftest -w -I"$H/harness" "$H/engine/selftest/map_test.cpp" "$H/engine/replay_rt.cpp" -o "$D/mt" && "$D/mt" >/dev/null || { echo "selftest: native map reference FAILED"; exit 1; }
echo "selftest ok (std::map model vs native)"
clang++-14 -std=c++11 -O1 -fno-access-control -DNDEBUG -DSYMIR -w -I"$H/harness" -S -emit-llvm -o "$D/va.ll" "$H/engine/selftest/va_test.cpp"
python3-vt "$H/engine/symir.py" "$D/va.ll" h_va --json "$D/va.json" >/dev/null || { echo "selftest: symir variadic-argument model FAILED"; head -40 "$D/va.json"; exit 1; }
echo "selftest ok (va_start/va_arg layout)"
