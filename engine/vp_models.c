/* C models of the non-inline libstdc++ / C++ ABI / libc functions that the translated IR calls.
   Every model here is part of the verification claim (listed as a stub in evidence). */
#include "vp_rt.h"
#define NPOS (~(u64)0)
int __vp_exc_active; void *__vp_exc_obj; void *__vp_exc_type; void *__vp_caught_obj; void *__vp_caught_type;
void *__vp_alloca(unsigned long n) { void *p = malloc(n ? n : 1); __CPROVER_assume(p != 0); return p; }
void __vp_unreachable(void) { __CPROVER_assert(0, "reached IR unreachable"); __CPROVER_assume(0); }
void __vp_trap(void) { __CPROVER_assert(0, "reached llvm.trap"); __CPROVER_assume(0); }
void __vp_unmodelled(const char *w) { __CPROVER_assert(0, "reached unmodelled function"); __CPROVER_assume(0); }
int __vp_exc_match(void *thrown, int id) { return 1; /* prototype: every handler matches */ }

void *_Znwm(u64 n) { void *p = malloc(n ? n : 1); __CPROVER_assume(p != 0); return p; }
void *_Znam(u64 n) { void *p = malloc(n ? n : 1); __CPROVER_assume(p != 0); return p; }
void _ZdlPv(void *p) { free(p); }
void _ZdaPv(void *p) { free(p); }

/* exceptions */
enum { EX_BAD_ALLOC = 1, EX_LENGTH, EX_OUT_OF_RANGE, EX_LOGIC, EX_INVALID_ARG, EX_BAD_FUNCTION_CALL, EX_USER };
static void vp_throw_std(int kind) { __vp_exc_active = 1; __vp_exc_obj = 0; __vp_exc_type = (void*)(unsigned long)kind; }
void _ZSt17__throw_bad_allocv(void) { vp_throw_std(EX_BAD_ALLOC); }
void _ZSt28__throw_bad_array_new_lengthv(void) { vp_throw_std(EX_BAD_ALLOC); }
void _ZSt20__throw_length_errorPKc(void *m) { vp_throw_std(EX_LENGTH); }
void _ZSt24__throw_out_of_range_fmtPKcz(void *m, ...) { vp_throw_std(EX_OUT_OF_RANGE); }
void _ZSt20__throw_out_of_rangePKc(void *m) { vp_throw_std(EX_OUT_OF_RANGE); }
void _ZSt19__throw_logic_errorPKc(void *m) { vp_throw_std(EX_LOGIC); }
void _ZSt24__throw_invalid_argumentPKc(void *m) { vp_throw_std(EX_INVALID_ARG); }
void _ZSt25__throw_bad_function_callv(void) { vp_throw_std(EX_BAD_FUNCTION_CALL); }
void *__cxa_allocate_exception(u64 n) { return _Znwm(n); }
void __cxa_free_exception(void *p) { free(p); }
void __cxa_throw(void *obj, void *tinfo, void *dtor) { __vp_exc_active = 1; __vp_exc_obj = obj; __vp_exc_type = tinfo; }
void *__cxa_begin_catch(void *obj) { __vp_exc_active = 0; __vp_caught_obj = obj; __vp_caught_type = __vp_exc_type; return obj; }
void __cxa_end_catch(void) { }
void __cxa_rethrow(void) { __vp_exc_active = 1; __vp_exc_obj = __vp_caught_obj; __vp_exc_type = __vp_caught_type; }
void _ZSt9terminatev(void) { __CPROVER_assert(0, "std::terminate reached"); __CPROVER_assume(0); }
void _ZNSt12out_of_rangeC1EPKc(void *self, void *msg) { }
void _ZNSt12out_of_rangeD1Ev(void *self) { }

/* libc bits */
static int vp_errno;
void *__errno_location(void) { return &vp_errno; }
u32 memcmp(void *a, void *b, u64 n) { u8 *x = a, *y = b; for (u64 i = 0; i < n; i++) { if (x[i] != y[i]) return x[i] < y[i] ? (u32)-1 : 1; } return 0; }
u32 bcmp(void *a, void *b, u64 n) { return memcmp(a, b, n); }
u64 strlen(void *s) { u8 *p = s; u64 n = 0; while (p[n]) n++; return n; }
u64 strtol(void *s, void *endp, u32 base) {
  /* base 10 only (std::stoi); whitespace skipping limited to ' ' */
  u8 *p = s; u64 i = 0; int neg = 0; i64 v = 0; int any = 0;
  while (p[i] == ' ' || (p[i] >= 9 && p[i] <= 13)) i++;
  if (p[i] == '+' || p[i] == '-') { neg = p[i] == '-'; i++; }
  while (p[i] >= '0' && p[i] <= '9') {
    any = 1;
    if (v > (0x7fffffffffffffffL - (p[i] - '0')) / 10) { vp_errno = 34; v = 0x7fffffffffffffffL; while (p[i] >= '0' && p[i] <= '9') i++; break; }
    v = v * 10 + (p[i] - '0'); i++;
  }
  if (endp) *(u8**)endp = any ? p + i : p;
  return (u64)(neg ? -v : v);
}

/* std::string (libstdc++ cxx11 ABI): { char *p; size_t len; union { char local[16]; size_t cap; } } */
typedef struct { u8 *p; u64 len; union { u8 local[16]; u64 cap; } u; } vstr;
static u64 vs_cap(vstr *s) { return s->p == s->u.local ? 15 : s->u.cap; }
void *_ZNSt7__cxx1112basic_stringIcSt11char_traitsIcESaIcEE9_M_createERmm(void *self, void *capp, u64 old) {
  u64 *cap = capp;
  if (*cap > 0x3fffffffffffffffUL) { vp_throw_std(EX_LENGTH); return 0; }
  if (*cap > old && *cap < 2 * old) *cap = 2 * old;
  return _Znwm(*cap + 1);
}
static void vs_grow(vstr *s, u64 need) {
  if (need <= vs_cap(s)) return;
  u64 cap = need; 
  u8 *np = _ZNSt7__cxx1112basic_stringIcSt11char_traitsIcESaIcEE9_M_createERmm(s, &cap, vs_cap(s));
  if (__vp_exc_active) return;
  for (u64 i = 0; i < s->len; i++) np[i] = s->p[i];
  if (s->p != s->u.local) free(s->p);
  s->p = np; s->u.cap = cap;
}
void _ZNSt7__cxx1112basic_stringIcSt11char_traitsIcESaIcEE7reserveEm(void *self, u64 n) { vstr *s = self; vs_grow(s, n); if (!__vp_exc_active) s->p[s->len] = 0; }
/* _M_mutate(pos, len1, s, len2): replace [pos,pos+len1) by len2 chars from s (s may be null => leave gap), reallocating */
void _ZNSt7__cxx1112basic_stringIcSt11char_traitsIcESaIcEE9_M_mutateEmmPKcm(void *self, u64 pos, u64 len1, void *src, u64 len2) {
  vstr *s = self; u64 how_much = s->len - pos - len1; u64 new_cap = s->len + len2 - len1;
  u8 *np = _ZNSt7__cxx1112basic_stringIcSt11char_traitsIcESaIcEE9_M_createERmm(s, &new_cap, vs_cap(s));
  if (__vp_exc_active) return;
  for (u64 i = 0; i < pos; i++) np[i] = s->p[i];
  if (src) for (u64 i = 0; i < len2; i++) np[pos + i] = ((u8*)src)[i];
  for (u64 i = 0; i < how_much; i++) np[pos + len2 + i] = s->p[pos + len1 + i];
  if (s->p != s->u.local) free(s->p);
  s->p = np; s->u.cap = new_cap;
}
void _ZNSt7__cxx1112basic_stringIcSt11char_traitsIcESaIcEE9_M_assignERKS4_(void *self, void *other) {
  vstr *s = self, *o = other; if (s == o) return;
  vs_grow(s, o->len); if (__vp_exc_active) return;
  for (u64 i = 0; i < o->len; i++) s->p[i] = o->p[i];
  s->len = o->len; s->p[s->len] = 0;
}
u64 _ZNKSt7__cxx1112basic_stringIcSt11char_traitsIcESaIcEE4findEcm(void *self, u8 c, u64 pos) {
  vstr *s = self; for (u64 i = pos; i < s->len; i++) if (s->p[i] == c) return i; return NPOS; }
u64 _ZNKSt7__cxx1112basic_stringIcSt11char_traitsIcESaIcEE4findEPKcmm(void *self, void *pat, u64 pos, u64 n) {
  vstr *s = self; u8 *q = pat;
  if (n == 0) return pos <= s->len ? pos : NPOS;
  if (pos >= s->len || n > s->len - pos) return NPOS;
  for (u64 i = pos; i + n <= s->len; i++) { u64 k = 0; while (k < n && s->p[i + k] == q[k]) k++; if (k == n) return i; }
  return NPOS; }
u64 _ZNKSt7__cxx1112basic_stringIcSt11char_traitsIcESaIcEE17find_first_not_ofEcm(void *self, u8 c, u64 pos) {
  vstr *s = self; for (u64 i = pos; i < s->len; i++) if (s->p[i] != c) return i; return NPOS; }
u64 _ZNKSt7__cxx1112basic_stringIcSt11char_traitsIcESaIcEE16find_last_not_ofEcm(void *self, u8 c, u64 pos) {
  vstr *s = self; if (s->len == 0) return NPOS; u64 i = s->len - 1; if (pos < i) i = pos;
  for (;;) { if (s->p[i] != c) return i; if (i == 0) return NPOS; i--; } }
u64 _ZNKSt7__cxx1112basic_stringIcSt11char_traitsIcESaIcEE13find_first_ofEPKcmm(void *self, void *set, u64 pos, u64 n) {
  vstr *s = self; u8 *q = set; for (u64 i = pos; n && i < s->len; i++) for (u64 k = 0; k < n; k++) if (s->p[i] == q[k]) return i; return NPOS; }
void _ZNKSt7__cxx1112basic_stringIcSt11char_traitsIcESaIcEE6substrEmm(void *ret, void *self, u64 pos, u64 n) {
  vstr *s = self, *r = ret;
  if (pos > s->len) { vp_throw_std(EX_OUT_OF_RANGE); return; }
  u64 m = s->len - pos; if (n < m) m = n;
  r->p = r->u.local; r->len = 0;
  if (m > 15) { u64 cap = m; r->p = _ZNSt7__cxx1112basic_stringIcSt11char_traitsIcESaIcEE9_M_createERmm(r, &cap, 0); r->u.cap = cap; }
  for (u64 i = 0; i < m; i++) r->p[i] = s->p[pos + i];
  r->len = m; r->p[m] = 0;
}
static u32 vs_cmp(u8 *a, u64 na, u8 *b, u64 nb) {
  u64 n = na < nb ? na : nb;
  for (u64 i = 0; i < n; i++) if (a[i] != b[i]) return a[i] < b[i] ? (u32)-1 : 1;
  return na == nb ? 0 : (na < nb ? (u32)-1 : 1);
}
u32 _ZNKSt7__cxx1112basic_stringIcSt11char_traitsIcESaIcEE7compareEPKc(void *self, void *cs) { vstr *s = self; return vs_cmp(s->p, s->len, cs, strlen(cs)); }
u32 _ZNKSt7__cxx1112basic_stringIcSt11char_traitsIcESaIcEE7compareEmmPKc(void *self, u64 pos, u64 n, void *cs) {
  vstr *s = self; if (pos > s->len) { vp_throw_std(EX_OUT_OF_RANGE); return 0; }
  u64 m = s->len - pos; if (n < m) m = n; return vs_cmp(s->p + pos, m, cs, strlen(cs)); }

/* red-black tree: modelled as an UNBALANCED binary search tree (std::map/set observable behaviour does not depend on balance) */
typedef struct rbn { u32 color; struct rbn *parent, *left, *right; } rbn;
void _ZSt29_Rb_tree_insert_and_rebalancebPSt18_Rb_tree_node_baseS0_RS_(u8 insert_left, void *xv, void *pv, void *hv) {
  rbn *x = xv, *p = pv, *h = hv;
  x->parent = p; x->left = 0; x->right = 0; x->color = 0;
  if (insert_left) { p->left = x; if (p == h) { h->parent = x; h->right = x; } else if (p == h->left) h->left = x; }
  else { p->right = x; if (p == h->right) h->right = x; }
}
void *_ZSt18_Rb_tree_incrementPSt18_Rb_tree_node_base(void *xv) {
  rbn *x = xv;
  if (x->right) { x = x->right; while (x->left) x = x->left; return x; }
  rbn *y = x->parent; while (x == y->right) { x = y; y = y->parent; }
  if (x->right != y) x = y; return x;
}
void *_ZSt18_Rb_tree_incrementPKSt18_Rb_tree_node_base(void *xv) { return _ZSt18_Rb_tree_incrementPSt18_Rb_tree_node_base(xv); }
void *_ZSt18_Rb_tree_decrementPSt18_Rb_tree_node_base(void *xv) {
  rbn *x = xv;
  if (x->color == 0 && x->parent->parent == x) return x->right;   /* header (red) */
  if (x->left) { rbn *y = x->left; while (y->right) y = y->right; return y; }
  rbn *y = x->parent; while (x == y->left) { x = y; y = y->parent; } return y;
}
u32 __cxa_atexit(void *f, void *a, void *d) { return 0; }

/* harness API */
u8 vp_false(void) { return 0; }
void vp_note(void *tag, u64 v) { }
void LogPrintfFunc(u8 *a0, u8 *a1, u8 *a2, u32 a3, u32 a4, u32 a5, u8 *a6, ...) { }
/* <ctype.h>, C locale (negative arguments classify as "no") */
u32 isgraph(u32 c) { return (i32)c >= 0x21 && (i32)c <= 0x7e; }
u32 isprint(u32 c) { return (i32)c >= 0x20 && (i32)c <= 0x7e; }
u32 isspace(u32 c) { return ((i32)c >= 9 && (i32)c <= 13) || c == 32; }
u32 isdigit(u32 c) { return (i32)c >= 48 && (i32)c <= 57; }
u64 vp_concretize(u64 v) { return v; }
