#!/usr/bin/env python3
"""
ir2c: translate (a subset of) LLVM-14 textual IR, as produced by
  clang++-14 -O1 -fno-vectorize -fno-slp-vectorize -fno-unroll-loops -S -emit-llvm
into plain C that CBMC's C front end accepts.

PROTOTYPE (feasibility probe for DESIGN.md).
"""
import re, sys, hashlib, collections

# ----------------------------------------------------------------------------
# Lexer
# ----------------------------------------------------------------------------
TOK = re.compile(r'''
    (?P<ws>\s+)
  | (?P<comment>;[^\n]*)
  | (?P<cstr>c"(?:[^"\\]|\\[0-9A-Fa-f]{2}|\\\\)*")
  | (?P<str>"(?:[^"\\]|\\.)*")
  | (?P<local>%(?:"(?:[^"\\]|\\.)*"|[-a-zA-Z$._0-9]+))
  | (?P<glob>@(?:"(?:[^"\\]|\\.)*"|[-a-zA-Z$._0-9]+))
  | (?P<meta>![-a-zA-Z$._0-9]*(?:\([^)]*\))?)
  | (?P<attrgrp>\#[0-9]+)
  | (?P<float>[-+]?[0-9]+\.[0-9]*(?:[eE][-+]?[0-9]+)?)
  | (?P<hex>0x[KLMHR]?[0-9A-Fa-f]+)
  | (?P<int>-?[0-9]+)
  | (?P<dots>\.\.\.)
  | (?P<word>[a-zA-Z_][a-zA-Z_0-9.]*)
  | (?P<punct>[()\[\]{}<>,=*:|])
''', re.X)

def lex(s):
    out = []
    pos = 0
    while pos < len(s):
        m = TOK.match(s, pos)
        if not m:
            raise SyntaxError("lex error at: " + s[pos:pos+40])
        pos = m.end()
        k = m.lastgroup
        if k in ('ws', 'comment'):
            continue
        out.append((k, m.group(k)))
    return out

# ----------------------------------------------------------------------------
# Types
# ----------------------------------------------------------------------------
class Ty:
    pass

class TInt(Ty):
    def __init__(s, bits): s.bits = bits
    def key(s): return ('i', s.bits)
class TFloat(Ty):
    def __init__(s, kind): s.kind = kind
    def key(s): return ('f', s.kind)
class TVoid(Ty):
    def key(s): return ('void',)
class TPtr(Ty):
    def __init__(s, to): s.to = to
    def key(s): return ('p', s.to.key())
class TArr(Ty):
    def __init__(s, n, el): s.n = n; s.el = el
    def key(s): return ('a', s.n, s.el.key())
class TStruct(Ty):   # literal struct
    def __init__(s, fields, packed=False): s.fields = fields; s.packed = packed
    def key(s): return ('s', s.packed, tuple(f.key() for f in s.fields))
class TNamed(Ty):
    def __init__(s, name): s.name = name
    def key(s): return ('n', s.name)
class TFunc(Ty):
    def __init__(s, ret, params, vararg): s.ret = ret; s.params = params; s.vararg = vararg
    def key(s): return ('fn', s.ret.key(), tuple(p.key() for p in s.params), s.vararg)
class TOther(Ty):
    def __init__(s, w): s.w = w
    def key(s): return ('o', s.w)

class Parser:
    def __init__(s, toks):
        s.t = toks; s.i = 0
    def peek(s, o=0):
        return s.t[s.i+o] if s.i+o < len(s.t) else ('eof', '')
    def next(s):
        x = s.peek(); s.i += 1; return x
    def accept(s, v):
        if s.peek()[1] == v:
            s.i += 1; return True
        return False
    def expect(s, v):
        x = s.next()
        if x[1] != v:
            raise SyntaxError("expected %r got %r near %r" % (v, x, s.t[max(0,s.i-6):s.i+4]))
    def at_end(s): return s.i >= len(s.t)

    def parse_type(s):
        k, v = s.next()
        if k == 'word':
            if v == 'void': t = TVoid()
            elif re.fullmatch(r'i[0-9]+', v): t = TInt(int(v[1:]))
            elif v in ('float', 'double', 'x86_fp80', 'half', 'fp128'): t = TFloat(v)
            elif v in ('opaque', 'label', 'metadata', 'token', 'ptr'): t = TOther(v)
            else: raise SyntaxError("type? " + v)
        elif k == 'local':
            t = TNamed(v)
        elif v == '{':
            fs = []
            if not s.accept('}'):
                while True:
                    fs.append(s.parse_type())
                    if s.accept('}'): break
                    s.expect(',')
            t = TStruct(fs)
        elif v == '<':
            if s.peek()[1] == '{':
                s.next()
                fs = []
                if not s.accept('}'):
                    while True:
                        fs.append(s.parse_type())
                        if s.accept('}'): break
                        s.expect(',')
                s.expect('>')
                t = TStruct(fs, True)
            else:
                raise SyntaxError("vector types unsupported")
        elif v == '[':
            n = int(s.next()[1]);
            x = s.next()
            assert x[1] == 'x', x
            el = s.parse_type(); s.expect(']')
            t = TArr(n, el)
        else:
            raise SyntaxError("type? %r" % ((k, v),))
        # suffixes
        while True:
            if s.peek()[1] == '*':
                s.next(); t = TPtr(t)
            elif s.peek()[1] == '(' and not isinstance(t, TOther):
                # function type
                s.next()
                ps = []; va = False
                if not s.accept(')'):
                    while True:
                        if s.peek()[0] == 'dots':
                            s.next(); va = True
                        else:
                            ps.append(s.parse_type())
                        if s.accept(')'): break
                        s.expect(',')
                t = TFunc(t, ps, va)
            elif s.peek()[1] == 'addrspace':
                raise SyntaxError("addrspace")
            else:
                break
        return t

# ----------------------------------------------------------------------------
# Module model
# ----------------------------------------------------------------------------
PARAM_ATTR_WORDS = set('''noundef nonnull nocapture readonly writeonly readnone noalias zeroext signext
 returned inreg nest immarg swiftself swifterror nofree inalloca'''.split())
PARAM_ATTR_FUNCS = set('align dereferenceable dereferenceable_or_null byval sret byref preallocated elementtype inalloca'.split())

class Func:
    pass

class Module:
    def __init__(s):
        s.named = collections.OrderedDict()    # name -> Ty or None (opaque)
        s.globals = collections.OrderedDict()  # name -> dict
        s.aliases = {}
        s.funcs = collections.OrderedDict()    # name -> Func (defs)
        s.decls = collections.OrderedDict()    # name -> Func (declarations)
        s.attrgroups = {}
        s.ctors = []

def sanitize(name):
    # name includes sigil
    body = name[1:]
    if body.startswith('"'):
        body = body[1:-1]
    clean = re.sub(r'[^A-Za-z0-9_]', '_', body)
    if clean != body or not re.match(r'[A-Za-z_]', clean):
        h = hashlib.md5(body.encode()).hexdigest()[:6]
        clean = 'x' + clean[:48] + '_' + h
    return clean

def split_toplevel(text):
    """Yield logical top-level chunks: each global/type/declare line or full function body."""
    lines = text.split('\n')
    i = 0
    while i < len(lines):
        ln = lines[i]
        if ln.startswith('define '):
            body = [ln]
            i += 1
            while not lines[i].startswith('}'):
                body.append(lines[i]); i += 1
            i += 1
            yield ('define', body)
        elif ln.strip() == '' or ln.startswith(';'):
            i += 1
        else:
            yield ('line', ln); i += 1

class FnParser:
    """Parses function header and instructions."""
    pass

def parse_param_attrs(p):
    """skip parameter attributes; return dict with byval type if any"""
    info = {}
    while True:
        k, v = p.peek()
        if k == 'word' and v in PARAM_ATTR_WORDS:
            p.next()
        elif k == 'word' and v in PARAM_ATTR_FUNCS:
            p.next()
            if v == 'align' and p.peek()[0] == 'int':
                p.next(); continue
            if p.accept('('):
                if v in ('byval', 'sret', 'byref', 'preallocated', 'elementtype', 'inalloca'):
                    t = p.parse_type()
                    info[v] = t
                else:
                    p.next()
                p.expect(')')
        else:
            break
    return info

LINKAGE = set('''private internal available_externally linkonce weak common appending extern_weak linkonce_odr weak_odr external
 dso_local dso_preemptable default hidden protected unnamed_addr local_unnamed_addr thread_local
 ccc fastcc coldcc'''.split())

def parse_module(text):
    m = Module()
    for kind, chunk in split_toplevel(text):
        if kind == 'line':
            ln = chunk
            if ln.startswith('source_filename') or ln.startswith('target ') or ln.startswith('!') or ln.startswith('module asm') or ln.startswith('$'):
                continue
            if ln.startswith('attributes #'):
                mm = re.match(r'attributes (#\d+) = \{(.*)\}', ln)
                m.attrgroups[mm.group(1)] = mm.group(2)
                continue
            if ln.startswith('%'):
                toks = lex(ln); p = Parser(toks)
                name = p.next()[1]; p.expect('='); p.expect('type')
                if p.peek()[1] == 'opaque':
                    m.named[name] = None
                else:
                    m.named[name] = p.parse_type()
                continue
            if ln.startswith('declare '):
                toks = lex(ln); p = Parser(toks); p.next()
                f = parse_fn_header(p)
                m.decls[f.name] = f
                continue
            if ln.startswith('@'):
                toks = lex(ln); p = Parser(toks)
                name = p.next()[1]; p.expect('=')
                g = {'name': name, 'const': False, 'init': None, 'external': False, 'tls': False}
                while p.peek()[0] == 'word' and (p.peek()[1] in LINKAGE):
                    w = p.next()[1]
                    if w in ('external', 'extern_weak'): g['external'] = True
                    if w == 'thread_local':
                        g['tls'] = True
                        if p.accept('('):
                            p.next(); p.expect(')')
                if p.peek()[1] == 'alias':
                    p.next()
                    p.parse_type(); p.expect(',')
                    ty = p.parse_type()
                    val = parse_const(p, ty)
                    m.aliases[name] = val
                    continue
                w = p.next()[1]
                if w == 'constant': g['const'] = True
                elif w == 'global': pass
                else: raise SyntaxError("global kind " + w + " in " + ln[:80])
                g['type'] = p.parse_type()
                if not g['external'] and p.peek()[0] != 'eof' and p.peek()[1] != ',':
                    g['init'] = parse_const(p, g['type'])
                m.globals[name] = g
                continue
            raise SyntaxError("toplevel? " + ln[:100])
        else:
            f = parse_function(chunk)
            m.funcs[f.name] = f
    return m

def parse_fn_header(p):
    f = Func()
    f.attrs = []
    while p.peek()[0] == 'word' and p.peek()[1] in LINKAGE:
        f.attrs.append(p.next()[1])
    # return attrs
    parse_param_attrs(p)
    f.ret = p.parse_type()
    f.name = p.next()[1]
    p.expect('(')
    f.params = []; f.vararg = False
    if not p.accept(')'):
        while True:
            if p.peek()[0] == 'dots':
                p.next(); f.vararg = True
            else:
                t = p.parse_type()
                info = parse_param_attrs(p)
                nm = None
                if p.peek()[0] == 'local':
                    nm = p.next()[1]
                f.params.append((t, nm, info))
            if p.accept(')'): break
            p.expect(',')
    f.tail = []
    while not p.at_end():
        k, v = p.next()
        if v == '{': break
        f.tail.append(v)
    f.groups = [x for x in f.tail if x.startswith('#')]
    return f

# ---- constants -------------------------------------------------------------
class C:
    def __init__(s, kind, ty, **kw):
        s.kind = kind; s.ty = ty; s.__dict__.update(kw)

def parse_const(p, ty):
    k, v = p.peek()
    if k in ('int',):
        p.next(); return C('int', ty, v=int(v))
    if k == 'hex':
        p.next(); return C('fhex', ty, v=v)
    if k == 'float':
        p.next(); return C('float', ty, v=v)
    if k == 'word':
        if v in ('true', 'false'):
            p.next(); return C('int', ty, v=1 if v == 'true' else 0)
        if v == 'null':
            p.next(); return C('null', ty)
        if v in ('undef', 'poison'):
            p.next(); return C('undef', ty)
        if v == 'zeroinitializer':
            p.next(); return C('zero', ty)
        if v in ('getelementptr',):
            p.next(); p.accept('inbounds')
            p.expect('(')
            bty = p.parse_type(); p.expect(',')
            pty = p.parse_type()
            base = parse_const(p, pty)
            idx = []
            while p.accept(','):
                p.accept('inrange')
                ity = p.parse_type()
                idx.append(parse_const(p, ity))
            p.expect(')')
            return C('gep', ty, bty=bty, base=base, idx=idx)
        if v in ('bitcast', 'ptrtoint', 'inttoptr', 'trunc', 'zext', 'sext', 'addrspacecast'):
            p.next(); p.expect('(')
            sty = p.parse_type()
            src = parse_const(p, sty)
            p.expect('to')
            dty = p.parse_type(); p.expect(')')
            return C('cast', dty, op=v, src=src)
        if v in ('add', 'sub', 'mul', 'and', 'or', 'xor', 'shl', 'lshr', 'ashr'):
            p.next()
            while p.peek()[1] in ('nuw', 'nsw', 'exact'): p.next()
            p.expect('(')
            t1 = p.parse_type(); a = parse_const(p, t1); p.expect(',')
            t2 = p.parse_type(); b = parse_const(p, t2); p.expect(')')
            return C('bin', t1, op=v, a=a, b=b)
        if v == 'icmp':
            p.next(); pred = p.next()[1]; p.expect('(')
            t1 = p.parse_type(); a = parse_const(p, t1); p.expect(',')
            t2 = p.parse_type(); b = parse_const(p, t2); p.expect(')')
            return C('icmp', TInt(1), pred=pred, a=a, b=b)
        if v == 'select':
            raise SyntaxError('const select')
    if k == 'cstr':
        p.next()
        return C('cstr', ty, v=v)
    if k == 'glob':
        p.next(); return C('glob', ty, name=v)
    if k == 'local':
        p.next(); return C('local', ty, name=v)
    if v == '{':
        p.next(); els = []
        if not p.accept('}'):
            while True:
                t = p.parse_type(); els.append(parse_const(p, t))
                if p.accept('}'): break
                p.expect(',')
        return C('agg', ty, els=els)
    if v == '<':
        p.next()
        if p.accept('{'):
            els = []
            if not p.accept('}'):
                while True:
                    t = p.parse_type(); els.append(parse_const(p, t))
                    if p.accept('}'): break
                    p.expect(',')
            p.expect('>')
            return C('agg', ty, els=els)
        raise SyntaxError('vector const')
    if v == '[':
        p.next(); els = []
        if not p.accept(']'):
            while True:
                t = p.parse_type(); els.append(parse_const(p, t))
                if p.accept(']'): break
                p.expect(',')
        return C('agg', ty, els=els)
    raise SyntaxError("const? %r near %r" % ((k, v), p.t[max(0,p.i-5):p.i+5]))

# ---- instructions ----------------------------------------------------------
class Ins:
    def __init__(s, op, **kw):
        s.op = op; s.res = None; s.__dict__.update(kw)

def join_instruction_lines(lines):
    out = []
    cur = None
    depth_sw = False
    for ln in lines:
        if ln.strip() == '' or ln.lstrip().startswith(';'):
            continue
        if depth_sw:
            cur += ' ' + ln.strip()
            if ln.strip().startswith(']'):
                depth_sw = False
                out.append(cur); cur = None
            continue
        if re.match(r'^[-a-zA-Z$._0-9"]+:', ln) or re.match(r'^"', ln):
            out.append(ln)
            continue
        s = ln.strip()
        if s.startswith('to label') or s.startswith('catch ') or s == 'cleanup' or s.startswith('filter '):
            out[-1] += ' ' + s
            continue
        if re.search(r'\bswitch\b', ln) and ln.rstrip().endswith('['):
            cur = ln.strip(); depth_sw = True
            continue
        out.append(ln.strip())
    return out

def parse_value(p, ty):
    return parse_const(p, ty)

FAST_MATH = set('fast nnan ninf nsz arcp contract afn reassoc'.split())

def parse_function(lines):
    hdr = lines[0]
    p = Parser(lex(hdr)); p.next()
    f = parse_fn_header(p)
    f.blocks = collections.OrderedDict()
    cur = []
    entry_label = None
    # entry label is implicit: number after params
    nparam = len(f.params)
    # the implicit entry block id equals number of unnamed values so far
    unnamed = sum(1 for (_, nm, _) in f.params if nm is not None and re.fullmatch(r'%\d+', nm))
    curlabel = '%' + str(unnamed)
    f.entry = curlabel
    f.blocks[curlabel] = cur
    for ln in join_instruction_lines(lines[1:]):
        mm = re.match(r'^("(?:[^"\\]|\\.)*"|[-a-zA-Z$._0-9]+):', ln)
        if mm and not ln.startswith(' '):
            curlabel = '%' + mm.group(1)
            cur = []
            f.blocks[curlabel] = cur
            continue
        cur.append(parse_ins(ln))
    return f

def skip_meta(p):
    # trailing ", !tbaa !5, align 8"
    while p.accept(','):
        k, v = p.peek()
        if k == 'meta':
            p.next()
            if p.peek()[0] == 'meta': p.next()
        elif v == 'align':
            p.next(); p.next()
        else:
            raise SyntaxError("trailing? %r" % ((k, v),))

def parse_call_like(p, op):
    # after 'call'/'invoke' keyword
    while p.peek()[0] == 'word' and (p.peek()[1] in FAST_MATH or p.peek()[1] in ('fastcc', 'ccc', 'coldcc')):
        p.next()
    parse_param_attrs(p)
    rty = p.parse_type()
    # rty may be full function type (for varargs) -> TFunc / pointer
    fty = None
    if isinstance(rty, TFunc):
        fty = rty; rty = fty.ret
    k, v = p.peek()
    callee = parse_const(p, TPtr(TOther('fn')))
    p.expect('(')
    args = []
    if not p.accept(')'):
        while True:
            t = p.parse_type()
            info = parse_param_attrs(p)
            if isinstance(t, TOther) and t.w == 'metadata':
                # metadata arg
                p.next()
                args.append((t, None, info))
            else:
                a = parse_value(p, t)
                args.append((t, a, info))
            if p.accept(')'): break
            p.expect(',')
    groups = []
    while p.peek()[0] in ('attrgrp',) or (p.peek()[0] == 'word' and p.peek()[1] in ('nounwind', 'noreturn', 'readnone', 'readonly', 'nobuiltin', 'builtin', 'cold', 'nomerge', 'willreturn')):
        groups.append(p.next()[1])
    ins = Ins(op, rty=rty, fty=fty, callee=callee, args=args, groups=groups)
    if p.accept('['):   # operand bundles
        raise SyntaxError('operand bundle')
    if op == 'invoke':
        p.expect('to'); p.expect('label'); ins.normal = p.next()[1]
        p.expect('unwind'); p.expect('label'); ins.unwind = p.next()[1]
    return ins

BINOPS = set('add sub mul udiv sdiv urem srem shl lshr ashr and or xor fadd fsub fmul fdiv frem'.split())
CASTS = set('trunc zext sext bitcast ptrtoint inttoptr fptoui fptosi uitofp sitofp fpext fptrunc'.split())

def parse_ins(ln):
    p = Parser(lex(ln))
    res = None
    if p.peek()[0] == 'local' and p.peek(1)[1] == '=':
        res = p.next()[1]; p.next()
    k, op = p.next()
    if op in ('tail', 'musttail', 'notail'):
        k, op = p.next()
    ins = None
    if op in BINOPS:
        while p.peek()[1] in ('nuw', 'nsw', 'exact') or p.peek()[1] in FAST_MATH: p.next()
        t = p.parse_type(); a = parse_value(p, t); p.expect(','); b = parse_value(p, t)
        ins = Ins('bin', bop=op, ty=t, a=a, b=b)
    elif op == 'fneg':
        while p.peek()[1] in FAST_MATH: p.next()
        t = p.parse_type(); a = parse_value(p, t)
        ins = Ins('fneg', ty=t, a=a)
    elif op in ('icmp', 'fcmp'):
        while p.peek()[1] in FAST_MATH: p.next()
        pred = p.next()[1]
        t = p.parse_type(); a = parse_value(p, t); p.expect(','); b = parse_value(p, t)
        ins = Ins(op, pred=pred, ty=t, a=a, b=b)
    elif op in CASTS:
        t = p.parse_type(); a = parse_value(p, t); p.expect('to'); d = p.parse_type()
        ins = Ins('cast', cop=op, sty=t, a=a, dty=d)
    elif op == 'getelementptr':
        p.accept('inbounds')
        bty = p.parse_type(); p.expect(',')
        pty = p.parse_type(); base = parse_value(p, pty)
        idx = []
        while p.peek()[1] == ',' and p.peek(1)[0] != 'meta':
            p.next()
            ity = p.parse_type(); idx.append(parse_value(p, ity))
        ins = Ins('gep', bty=bty, pty=pty, base=base, idx=idx)
    elif op == 'load':
        is_atomic = bool(p.accept('atomic')); p.accept('volatile')
        t = p.parse_type(); p.expect(',')
        pt = p.parse_type(); a = parse_value(p, pt)
        ins = Ins('load', ty=t, pty=pt, a=a, atomic=is_atomic)
        # skip rest
        p.i = len(p.t)
    elif op == 'store':
        is_atomic = bool(p.accept('atomic')); p.accept('volatile')
        t = p.parse_type(); v = parse_value(p, t); p.expect(',')
        pt = p.parse_type(); a = parse_value(p, pt)
        ins = Ins('store', ty=t, v=v, pty=pt, a=a, atomic=is_atomic)
        p.i = len(p.t)
    elif op == 'alloca':
        p.accept('inalloca')
        t = p.parse_type()
        n = None
        if p.accept(','):
            if p.peek()[1] == 'align':
                pass
            else:
                nt = p.parse_type(); n = parse_value(p, nt)
        ins = Ins('alloca', ty=t, n=n)
        p.i = len(p.t)
    elif op == 'br':
        if p.accept('label'):
            ins = Ins('br', dest=p.next()[1])
        else:
            t = p.parse_type(); c = parse_value(p, t)
            p.expect(','); p.expect('label'); a = p.next()[1]
            p.expect(','); p.expect('label'); b = p.next()[1]
            ins = Ins('condbr', c=c, a=a, b=b)
        p.i = len(p.t)
    elif op == 'switch':
        t = p.parse_type(); v = parse_value(p, t); p.expect(','); p.expect('label'); d = p.next()[1]
        p.expect('[')
        cases = []
        while not p.accept(']'):
            ct = p.parse_type(); cv = parse_value(p, ct); p.expect(','); p.expect('label'); cl = p.next()[1]
            cases.append((cv, cl))
        ins = Ins('switch', ty=t, v=v, default=d, cases=cases)
    elif op == 'ret':
        t = p.parse_type()
        if isinstance(t, TVoid):
            ins = Ins('ret', ty=t, v=None)
        else:
            ins = Ins('ret', ty=t, v=parse_value(p, t))
        p.i = len(p.t)
    elif op == 'unreachable':
        ins = Ins('unreachable')
    elif op == 'phi':
        t = p.parse_type()
        inc = []
        while True:
            p.expect('[')
            v = parse_value(p, t); p.expect(','); l = p.next()[1]; p.expect(']')
            inc.append((v, l))
            if not p.accept(','): break
        ins = Ins('phi', ty=t, inc=inc)
    elif op == 'select':
        while p.peek()[1] in FAST_MATH: p.next()
        ct = p.parse_type(); c = parse_value(p, ct); p.expect(',')
        t = p.parse_type(); a = parse_value(p, t); p.expect(',')
        t2 = p.parse_type(); b = parse_value(p, t2)
        ins = Ins('select', c=c, ty=t, a=a, b=b)
    elif op in ('call', 'invoke'):
        ins = parse_call_like(p, op)
        p.i = len(p.t)
    elif op == 'landingpad':
        t = p.parse_type()
        cleanup = False; clauses = []
        while not p.at_end():
            w = p.next()[1]
            if w == 'cleanup': cleanup = True
            elif w == 'catch':
                ct = p.parse_type(); cv = parse_value(p, ct); clauses.append(('catch', cv))
            elif w == 'filter':
                ct = p.parse_type(); cv = parse_value(p, ct); clauses.append(('filter', cv))
            else:
                raise SyntaxError('landingpad clause ' + w)
        ins = Ins('landingpad', ty=t, cleanup=cleanup, clauses=clauses)
    elif op == 'resume':
        t = p.parse_type(); v = parse_value(p, t)
        ins = Ins('resume', ty=t, v=v)
    elif op == 'extractvalue':
        t = p.parse_type(); a = parse_value(p, t)
        idx = []
        while p.accept(','):
            idx.append(int(p.next()[1]))
        ins = Ins('extractvalue', ty=t, a=a, idx=idx)
    elif op == 'insertvalue':
        t = p.parse_type(); a = parse_value(p, t); p.expect(',')
        et = p.parse_type(); e = parse_value(p, et)
        idx = []
        while p.accept(','):
            idx.append(int(p.next()[1]))
        ins = Ins('insertvalue', ty=t, a=a, ety=et, e=e, idx=idx)
    elif op == 'atomicrmw':
        p.accept('volatile')
        rop = p.next()[1]
        pt = p.parse_type(); a = parse_value(p, pt); p.expect(',')
        t = p.parse_type(); v = parse_value(p, t)
        ins = Ins('atomicrmw', rop=rop, pty=pt, a=a, ty=t, v=v)
        p.i = len(p.t)
    elif op == 'cmpxchg':
        p.accept('weak'); p.accept('volatile')
        pt = p.parse_type(); a = parse_value(p, pt); p.expect(',')
        t = p.parse_type(); cmpv = parse_value(p, t); p.expect(',')
        t2 = p.parse_type(); newv = parse_value(p, t2)
        ins = Ins('cmpxchg', pty=pt, a=a, ty=t, cmp=cmpv, new=newv)
        p.i = len(p.t)
    elif op == 'fence':
        ins = Ins('fence'); p.i = len(p.t)
    elif op == 'freeze':
        t = p.parse_type(); a = parse_value(p, t)
        ins = Ins('cast', cop='bitcast', sty=t, a=a, dty=t)
    elif op == 'va_arg':
        raise SyntaxError('va_arg')
    else:
        raise SyntaxError("instruction? %s in %s" % (op, ln[:120]))
    if not p.at_end():
        skip_meta(p)
    ins.res = res
    return ins

# ----------------------------------------------------------------------------
# C emission
# ----------------------------------------------------------------------------
class Emitter:
    def __init__(s, m, opts):
        s.m = m
        s.opts = opts
        s.tnames = {}       # type key -> C typedef name
        s.tlines = []
        s.body_done = set()
        s.struct_fwd = []
        s.struct_bodies = []
        s.named_done = set()
        s.typeinfo_ids = {}
        s.stub_names = set(opts.get('stubs', []))

    # --- names
    def gname(s, name):
        return sanitize(name)
    def lname(s, name):
        b = name[1:]
        if re.fullmatch(r'\d+', b): return 'v' + b
        return 'v_' + sanitize(name)
    def label(s, name):
        b = name[1:]
        if re.fullmatch(r'\d+', b): return 'L' + b
        return 'L_' + sanitize(name)

    # --- types
    def resolve(s, t):
        return t
    def ctype(s, t, complete=False):
        k = t.key()
        if isinstance(t, TNamed):
            n = 'struct S_' + sanitize(t.name)
            if k not in s.tnames:
                s.tnames[k] = n
                s.struct_fwd.append(n + ';')
            if complete: s.define_body(t)
            return n
        if k in s.tnames: return s.tnames[k]
        if isinstance(t, TInt):
            b = t.bits
            if b <= 8: n = 'u8'
            elif b <= 16: n = 'u16'
            elif b <= 32: n = 'u32'
            elif b <= 64: n = 'u64'
            elif b <= 128: n = 'u128'
            else: raise NotImplementedError('int width %d' % b)
            s.tnames[k] = n; return n
        if isinstance(t, TFloat):
            n = {'float': 'float', 'double': 'double', 'x86_fp80': 'long double'}[t.kind]
            s.tnames[k] = n; return n
        if isinstance(t, TVoid):
            return 'void'
        if isinstance(t, TOther):
            if t.w in ('fn', 'opaque'): return 'void'
            raise NotImplementedError('type ' + t.w)
        if isinstance(t, TPtr):
            if isinstance(t.to, TFunc):
                ft = t.to
                ps = ', '.join(s.ctype(x) for x in ft.params)
                if ft.vararg: ps = (ps + ', ...') if ps else ''
                if not ps and not ft.vararg: ps = 'void'
                r = s.ctype(ft.ret)
                n = s.newname(k)
                s.tlines.append('typedef %s (*%s)(%s);' % (r, n, ps))
            else:
                inner = s.ctype(t.to)
                n = s.newname(k)
                s.tlines.append('typedef %s *%s;' % (inner, n))
            return n
        if isinstance(t, TArr):
            inner = s.ctype(t.el, True)
            n = s.newname(k)
            s.tlines.append('typedef struct { %s a[%d]; } %s;' % (inner, max(t.n, 1), n))
            return n
        if isinstance(t, TStruct):
            fl = [s.ctype(x, True) for x in t.fields]
            n = s.newname(k)
            flds = ' '.join('%s f%d;' % (x, i) for i, x in enumerate(fl))
            pk = ' __attribute__((packed))' if t.packed else ''
            s.tlines.append('typedef struct%s { %s } %s;' % (pk, flds, n))
            return n
        if isinstance(t, TFunc):
            ps = ', '.join(s.ctype(x) for x in t.params)
            if t.vararg: ps = (ps + ', ...') if ps else ''
            if not ps: ps = 'void'
            r = s.ctype(t.ret)
            n = s.newname(k)
            s.tlines.append('typedef %s %s(%s);' % (r, n, ps))
            return n
        raise NotImplementedError(str(t))

    def newname(s, k):
        n = 'T%d' % len(s.tnames)
        s.tnames[k] = n
        return n

    def define_body(s, t):
        if t.name in s.body_done: return
        d = s.m.named.get(t.name)
        s.body_done.add(t.name)
        if d is None: return
        fl = [s.ctype(x, True) for x in d.fields]
        flds = ' '.join('%s f%d;' % (x, i) for i, x in enumerate(fl))
        pk = ' __attribute__((packed))' if d.packed else ''
        s.tlines.append('struct%s S_%s { %s };' % (pk, sanitize(t.name), flds))

    def sizeof_align(s, t):
        if isinstance(t, TInt):
            b = t.bits
            sz = 1 if b <= 8 else 2 if b <= 16 else 4 if b <= 32 else 8 if b <= 64 else 16
            return sz, sz
        if isinstance(t, TFloat):
            return {'float': (4, 4), 'double': (8, 8), 'x86_fp80': (16, 16)}[t.kind]
        if isinstance(t, TPtr): return 8, 8
        if isinstance(t, TArr):
            sz, al = s.sizeof_align(t.el)
            return sz * t.n, al
        if isinstance(t, TNamed):
            d = s.m.named.get(t.name)
            if d is None: raise NotImplementedError('sizeof opaque ' + t.name)
            return s.sizeof_align(d)
        if isinstance(t, TStruct):
            off = 0; mal = 1
            for f in t.fields:
                sz, al = s.sizeof_align(f)
                if t.packed: al = 1
                off = (off + al - 1) // al * al
                off += sz
                mal = max(mal, al)
            off = (off + mal - 1) // mal * mal
            return off, mal
        raise NotImplementedError('sizeof ' + str(t))

    def struct_fields(s, t):
        if isinstance(t, TNamed):
            return s.m.named[t.name]
        return t

    # --- constants / values as C expressions
    def cexpr(s, c, fn=None):
        ty = c.ty
        if c.kind == 'int':
            ct = s.ctype(ty)
            v = c.v
            bits = ty.bits
            if v < 0: v += (1 << bits)
            if bits > 64:
                hi = v >> 64; lo = v & ((1 << 64) - 1)
                return '((((u128)%dULL)<<64)|(u128)%dULL)' % (hi, lo)
            return '((%s)%dULL)' % (ct, v)
        if c.kind == 'null':
            return '((%s)0)' % s.ctype(ty)
        if c.kind == 'undef':
            if isinstance(ty, (TInt, TFloat)): return '((%s)0)' % s.ctype(ty)
            if isinstance(ty, TPtr): return '((%s)0)' % s.ctype(ty)
            return s.zero_agg(ty)
        if c.kind == 'zero':
            if isinstance(ty, (TInt, TFloat, TPtr)): return '((%s)0)' % s.ctype(ty)
            return s.zero_agg(ty)
        if c.kind == 'float':
            return '((%s)%s)' % (s.ctype(ty), c.v)
        if c.kind == 'fhex':
            import struct
            h = c.v[2:]
            if h[0] in 'KLMHR':
                raise NotImplementedError('fp80 const')
            bits = int(h, 16)
            d = struct.unpack('<d', struct.pack('<Q', bits))[0]
            if d != d: return '((%s)(0.0/0.0))' % s.ctype(ty)
            if d in (float('inf'), float('-inf')): return '((%s)(%s1.0/0.0))' % (s.ctype(ty), '-' if d < 0 else '')
            return '((%s)%r)' % (s.ctype(ty), d)
        if c.kind == 'glob':
            nm = c.name
            while nm in s.m.aliases and s.m.aliases[nm].kind == 'glob':
                nm = s.m.aliases[nm].name
            if nm in s.m.aliases:
                return '((%s)%s)' % (s.ctype(ty), s.cexpr(s.m.aliases[nm]))
            g = s.gname(nm)
            s.used_globals.add(nm)
            if nm in s.m.funcs or nm in s.m.decls:
                return '((%s)&%s)' % (s.ctype(ty), g) if not (isinstance(ty, TPtr) and isinstance(ty.to, TOther)) else g
            return '((%s)&%s)' % (s.ctype(ty), g)
        if c.kind == 'local':
            return s.lname(c.name)
        if c.kind == 'cast':
            src = s.cexpr(c.src)
            return s.cast_expr(c.op, c.src.ty, src, ty)
        if c.kind == 'gep':
            return s.gep_expr(c.bty, s.cexpr(c.base), c.base.ty, [(i.ty, s.cexpr(i), i) for i in c.idx], ty)
        if c.kind == 'bin':
            return s.bin_expr(c.op, c.ty, s.cexpr(c.a), s.cexpr(c.b))
        if c.kind == 'icmp':
            return s.icmp_expr(c.pred, c.a.ty, s.cexpr(c.a), s.cexpr(c.b))
        if c.kind in ('agg', 'cstr'):
            return '(%s)%s' % (s.ctype(ty), s.init_expr(c))
        raise NotImplementedError(c.kind)

    def zero_agg(s, ty):
        return '((%s){0})' % s.ctype(ty)

    def init_expr(s, c):
        """brace initializer for globals"""
        ty = c.ty
        if c.kind == 'cstr':
            raw = c.v[2:-1]
            bs = []
            i = 0
            while i < len(raw):
                if raw[i] == '\\':
                    if raw[i+1] == '\\': bs.append(92); i += 2
                    else: bs.append(int(raw[i+1:i+3], 16)); i += 3
                else:
                    bs.append(ord(raw[i])); i += 1
            return '{{' + ','.join(str(b) for b in bs) + '}}'
        if c.kind == 'agg':
            inner = '{' + ', '.join(s.init_expr(e) for e in c.els) + '}'
            if isinstance(ty, TArr): inner = '{' + inner + '}'
            return inner
        if c.kind == 'zero' or c.kind == 'undef':
            if isinstance(ty, (TInt, TFloat, TPtr)): return '0'
            return '{0}'
        return s.cexpr(c)

    def cast_expr(s, op, sty, src, dty):
        d = s.ctype(dty)
        if op in ('bitcast', 'addrspacecast'):
            if isinstance(sty, TPtr) and isinstance(dty, TPtr):
                return '((%s)%s)' % (d, src)
            if sty.key() == dty.key(): return src
            raise NotImplementedError('bitcast non-pointer %s' % (sty.key(),))
        if op == 'ptrtoint':
            return '((%s)(u64)%s)' % (d, src)
        if op == 'inttoptr':
            return '((%s)(u64)%s)' % (d, src)
        if op == 'trunc':
            if dty.bits == 1: return '((u8)((%s)&1))' % src
            m = s.mask(dty, '(%s)%s' % (d, src))
            return m
        if op == 'zext':
            return '((%s)%s)' % (d, src)
        if op == 'sext':
            return s.mask(dty, '((%s)(%s)%s)' % (d, s.stype(dty), s.sx(sty, src)))
        if op in ('fptoui',): return '((%s)%s)' % (d, src)
        if op in ('fptosi',): return '((%s)(%s)%s)' % (d, s.stype(dty), src)
        if op in ('uitofp',): return '((%s)%s)' % (d, src)
        if op in ('sitofp',): return '((%s)%s)' % (d, s.sx(sty, src))
        if op in ('fpext', 'fptrunc'): return '((%s)%s)' % (d, src)
        raise NotImplementedError(op)

    def stype(s, ty):
        b = ty.bits
        return 'i8' if b <= 8 else 'i16' if b <= 16 else 'i32' if b <= 32 else 'i64' if b <= 64 else 'i128'
    def is_std_width(s, ty):
        return ty.bits in (8, 16, 32, 64, 128)
    def mask(s, ty, e):
        if isinstance(ty, TInt) and not s.is_std_width(ty) and ty.bits != 1:
            return '((%s)((%s) & ((((%s)1)<<%d)-1)))' % (s.ctype(ty), e, s.ctype(ty), ty.bits)
        if isinstance(ty, TInt) and ty.bits == 1:
            return '((u8)((%s)&1))' % e
        return e
    def sx(s, ty, e):
        """signed interpretation of e (of int type ty) as C signed expr"""
        st = s.stype(ty)
        if s.is_std_width(ty):
            return '((%s)%s)' % (st, e)
        if ty.bits == 1:
            return '((%s)-(%s)(%s))' % (st, st, e)
        # odd width: shift up and arithmetic shift down
        w = {'i8': 8, 'i16': 16, 'i32': 32, 'i64': 64, 'i128': 128}[st]
        sh = w - ty.bits
        return '(((%s)((%s)%s << %d)) >> %d)' % (st, s.ctype(ty), e, sh, sh)

    def bin_expr(s, op, ty, a, b):
        ct = s.ctype(ty)
        if isinstance(ty, TFloat):
            o = {'fadd': '+', 'fsub': '-', 'fmul': '*', 'fdiv': '/'}[op]
            return '(%s %s %s)' % (a, o, b)
        if op in ('add', 'sub', 'mul', 'and', 'or', 'xor'):
            o = {'add': '+', 'sub': '-', 'mul': '*', 'and': '&', 'or': '|', 'xor': '^'}[op]
            big = 'u32' if ty.bits < 32 else ct
            return s.mask(ty, '((%s)((%s)%s %s (%s)%s))' % (ct, big, a, o, big, b))
        if op in ('udiv', 'urem'):
            o = '/' if op == 'udiv' else '%'
            return '((%s)(%s %s %s))' % (ct, a, o, b)
        if op in ('sdiv', 'srem'):
            o = '/' if op == 'sdiv' else '%'
            return s.mask(ty, '((%s)(%s %s %s))' % (ct, s.sx(ty, a), o, s.sx(ty, b)))
        if op == 'shl':
            big = 'u32' if ty.bits < 32 else ct
            return s.mask(ty, '((%s)((%s)%s << %s))' % (ct, big, a, b))
        if op == 'lshr':
            return '((%s)(%s >> %s))' % (ct, a, b)
        if op == 'ashr':
            return s.mask(ty, '((%s)(%s >> %s))' % (ct, s.sx(ty, a), b))
        raise NotImplementedError(op)

    def icmp_expr(s, pred, ty, a, b):
        if isinstance(ty, TPtr):
            a = '((u64)%s)' % a; b = '((u64)%s)' % b
            o = {'eq': '==', 'ne': '!=', 'ult': '<', 'ule': '<=', 'ugt': '>', 'uge': '>='}[pred]
            return '((u8)(%s %s %s))' % (a, o, b)
        if pred in ('eq', 'ne', 'ult', 'ule', 'ugt', 'uge'):
            o = {'eq': '==', 'ne': '!=', 'ult': '<', 'ule': '<=', 'ugt': '>', 'uge': '>='}[pred]
            return '((u8)(%s %s %s))' % (a, o, b)
        o = {'slt': '<', 'sle': '<=', 'sgt': '>', 'sge': '>='}[pred]
        return '((u8)(%s %s %s))' % (s.sx(ty, a), o, s.sx(ty, b))

    def gep_expr(s, bty, base, basety, idx, resty):
        # idx: list of (ty, cexpr, constobj)
        cur = base
        curty = bty
        first = True
        for (ity, ie, io) in idx:
            if first:
                first = False
                if not (io.kind == 'int' and io.v == 0):
                    cur = '(%s + %s)' % (cur, s.sx(ity, ie))
                continue
            t = curty
            if isinstance(t, TNamed): t = s.m.named[t.name]
            if isinstance(t, TStruct):
                assert io.kind == 'int'
                cur = '(&(%s)->f%d)' % (cur, io.v)
                curty = t.fields[io.v]
            elif isinstance(t, TArr):
                cur = '(&(%s)->a[%s])' % (cur, s.sx(ity, ie))
                curty = t.el
            else:
                raise NotImplementedError('gep into ' + str(t.key()))
        return '((%s)%s)' % (s.ctype(resty), cur)

    # --- functions
    def fn_is_nounwind(s, groups, callee_name):
        for g in groups:
            if g == 'nounwind': return True
            if g in s.m.attrgroups and 'nounwind' in s.m.attrgroups[g].split(): return True
        if callee_name:
            f = s.m.funcs.get(callee_name) or s.m.decls.get(callee_name)
            if f:
                for g in f.groups:
                    if 'nounwind' in s.m.attrgroups.get(g, '').split(): return True
                if 'nounwind' in f.tail: return True
        return False

    def proto(s, f, name=None):
        ps = []
        for i, (t, nm, info) in enumerate(f.params):
            pn = s.lname(nm) if nm else 'a%d' % i
            ps.append('%s %s' % (s.ctype(t), pn))
        if f.vararg: ps.append('...')
        if not ps: ps = ['void']
        return '%s %s(%s)' % (s.ctype(f.ret), name or s.gname(f.name), ', '.join(ps))

    def ext_ctype(s, t):
        if isinstance(t, TPtr): return 'void*'
        return s.ctype(t)
    def ext_proto(s, f):
        ps = [s.ext_ctype(t) for (t, nm, info) in f.params]
        if f.vararg: ps.append('...')
        if not ps: ps = ['void']
        return '%s %s(%s)' % (s.ext_ctype(f.ret), s.gname(f.name), ', '.join(ps))

    def default_ret(s, ty):
        if isinstance(ty, TVoid): return 'return;'
        if isinstance(ty, (TInt, TFloat, TPtr)): return 'return (%s)0;' % s.ctype(ty)
        return 'return (%s){0};' % s.ctype(ty)

    def typeinfo_id(s, c):
        # c: const (possibly bitcast) of @_ZTI.. or null
        while c.kind == 'cast': c = c.src
        if c.kind == 'null': return 0
        nm = c.name
        if nm not in s.typeinfo_ids:
            s.typeinfo_ids[nm] = len(s.typeinfo_ids) + 1
        return s.typeinfo_ids[nm]

    def emit_function(s, f, out):
        name = s.gname(f.name)
        out.append(s.proto(f) + ' {')
        # collect result vars & types
        decls = []
        restypes = {}
        for lbl, inss in f.blocks.items():
            for ins in inss:
                if ins.res is None: continue
                restypes[ins.res] = s.result_type(ins)
        for r, t in restypes.items():
            decls.append('  %s %s;' % (s.ctype(t), s.lname(r)))
        for ins in f.blocks[f.entry]:
            if ins.op == 'alloca' and (ins.n is None or (ins.n.kind == 'int' and ins.n.v == 1)):
                decls.append('  %s %s__obj;' % (s.ctype(ins.ty, True), s.lname(ins.res)))
        out.extend(decls)
        # phi temporaries
        phis = {}
        for lbl, inss in f.blocks.items():
            for ins in inss:
                if ins.op == 'phi':
                    out.append('  %s %s__phi;' % (s.ctype(ins.ty), s.lname(ins.res)))
        s.cur_fn = f
        first = True
        for lbl, inss in f.blocks.items():
            out.append(' %s: ;' % s.label(lbl))
            # phi loads
            for ins in inss:
                if ins.op == 'phi':
                    out.append('  %s = %s__phi;' % (s.lname(ins.res), s.lname(ins.res)))
            for ins in inss:
                if ins.op == 'phi': continue
                s.emit_ins(f, lbl, ins, out)
        out.append('}')
        out.append('')

    def result_type(s, ins):
        op = ins.op
        if op == 'bin': return ins.ty
        if op == 'fneg': return ins.ty
        if op in ('icmp', 'fcmp'): return TInt(1)
        if op == 'cast': return ins.dty
        if op == 'gep':
            return s.gep_result_type(ins.bty, ins.idx)
        if op == 'load': return ins.ty
        if op == 'alloca': return TPtr(ins.ty)
        if op == 'phi': return ins.ty
        if op == 'select': return ins.ty
        if op in ('call', 'invoke'): return ins.rty
        if op == 'landingpad': return ins.ty
        if op == 'extractvalue':
            t = ins.ty
            for i in ins.idx:
                if isinstance(t, TNamed): t = s.m.named[t.name]
                t = t.fields[i] if isinstance(t, TStruct) else t.el
            return t
        if op == 'insertvalue': return ins.ty
        if op == 'atomicrmw': return ins.ty
        if op == 'cmpxchg': return TStruct([ins.ty, TInt(1)])
        raise NotImplementedError(op)

    def gep_result_type(s, bty, idx):
        cur = bty
        for n, io in enumerate(idx):
            if n == 0: continue
            t = cur
            if isinstance(t, TNamed): t = s.m.named[t.name]
            if isinstance(t, TStruct): cur = t.fields[io.v]
            elif isinstance(t, TArr): cur = t.el
            else: raise NotImplementedError
        return TPtr(cur)

    def phi_moves(s, f, frm, to, out, indent='  '):
        inss = f.blocks[to]
        moves = []
        for ins in inss:
            if ins.op != 'phi': break
            for (v, l) in ins.inc:
                if l == frm:
                    moves.append('%s%s__phi = %s;' % (indent, s.lname(ins.res), s.cexpr(v)))
                    break
        out.extend(moves)

    def goto(s, f, frm, to, out, indent='  '):
        s.phi_moves(f, frm, to, out, indent)
        out.append('%sgoto %s;' % (indent, s.label(to)))

    def emit_ins(s, f, lbl, ins, out):
        op = ins.op
        R = s.lname(ins.res) if ins.res else None
        if op == 'bin':
            out.append('  %s = %s;' % (R, s.bin_expr(ins.bop, ins.ty, s.cexpr(ins.a), s.cexpr(ins.b))))
        elif op == 'fneg':
            out.append('  %s = -%s;' % (R, s.cexpr(ins.a)))
        elif op == 'icmp':
            out.append('  %s = %s;' % (R, s.icmp_expr(ins.pred, ins.ty, s.cexpr(ins.a), s.cexpr(ins.b))))
        elif op == 'fcmp':
            a = s.cexpr(ins.a); b = s.cexpr(ins.b)
            pr = ins.pred
            base = {'oeq': '==', 'ogt': '>', 'oge': '>=', 'olt': '<', 'ole': '<=', 'one': '!=',
                    'ueq': '==', 'ugt': '>', 'uge': '>=', 'ult': '<', 'ule': '<=', 'une': '!='}.get(pr)
            if pr == 'ord': e = '(%s==%s && %s==%s)' % (a, a, b, b)
            elif pr == 'uno': e = '(%s!=%s || %s!=%s)' % (a, a, b, b)
            elif pr[0] == 'o': e = '(%s %s %s)' % (a, base, b) if pr != 'one' else '(%s<%s || %s>%s)' % (a, b, a, b)
            else: e = '(!(%s==%s && %s==%s) || (%s %s %s))' % (a, a, b, b, a, base, b)
            out.append('  %s = (u8)%s;' % (R, e))
        elif op == 'cast':
            out.append('  %s = %s;' % (R, s.cast_expr(ins.cop, ins.sty, s.cexpr(ins.a), ins.dty)))
        elif op == 'gep':
            rt = s.gep_result_type(ins.bty, ins.idx)
            out.append('  %s = %s;' % (R, s.gep_expr(ins.bty, s.cexpr(ins.base), ins.pty, [(i.ty, s.cexpr(i), i) for i in ins.idx], rt)))
        elif op == 'load':
            out.append('  %s = *%s;' % (R, s.cexpr(ins.a)))
        elif op == 'store':
            out.append('  *%s = %s;' % (s.cexpr(ins.a), s.cexpr(ins.v)))
        elif op == 'alloca':
            ct = s.ctype(ins.ty)
            if (ins.n is None or (ins.n.kind == 'int' and ins.n.v == 1)) and lbl == f.entry:
                out.append('  %s = &%s__obj;' % (R, R))
            elif ins.n is None or (ins.n.kind == 'int' and ins.n.v == 1):
                out.append('  { %s *tmp__ = (%s*)__vp_alloca(sizeof(%s)); %s = tmp__; }' % (ct, ct, ct, R))
            else:
                out.append('  %s = (%s*)__vp_alloca(sizeof(%s) * (u64)%s);' % (R, ct, ct, s.cexpr(ins.n)))
        elif op == 'br':
            s.goto(f, lbl, ins.dest, out)
        elif op == 'condbr':
            out.append('  if (%s) {' % s.cexpr(ins.c))
            s.goto(f, lbl, ins.a, out, '    ')
            out.append('  } else {')
            s.goto(f, lbl, ins.b, out, '    ')
            out.append('  }')
        elif op == 'switch':
            v = s.cexpr(ins.v)
            for (cv, cl) in ins.cases:
                out.append('  if (%s == %s) {' % (v, s.cexpr(cv)))
                s.goto(f, lbl, cl, out, '    ')
                out.append('  }')
            s.goto(f, lbl, ins.default, out)
        elif op == 'ret':
            if ins.v is None: out.append('  return;')
            else: out.append('  return %s;' % s.cexpr(ins.v))
        elif op == 'unreachable':
            out.append('  __vp_unreachable(); ' + s.default_ret(f.ret))
        elif op == 'select':
            out.append('  %s = %s ? %s : %s;' % (R, s.cexpr(ins.c), s.cexpr(ins.a), s.cexpr(ins.b)))
        elif op in ('call', 'invoke'):
            s.emit_call(f, lbl, ins, out)
        elif op == 'landingpad':
            # compute selector
            out.append('  %s.f0 = (u8*)__vp_exc_obj;' % R)
            sel = []
            out.append('  %s.f1 = 0;' % R)
            # first matching clause wins
            conds = []
            for kind, cv in ins.clauses:
                if kind != 'catch': continue
                tid = s.typeinfo_id(cv)
                if tid == 0:
                    conds.append(('1', '__vp_catchall_id'))
                else:
                    conds.append(('__vp_exc_match(__vp_exc_type, %d)' % tid, str(tid)))
            for i, (cnd, tid) in enumerate(conds):
                out.append('  %sif (%s) %s.f1 = %s;' % ('else ' if i else '', cnd, R, tid))
            out.append('  __vp_exc_active = 0; /* in flight -> being handled */')
        elif op == 'resume':
            out.append('  __vp_exc_active = 1; ' + s.default_ret(f.ret))
        elif op == 'extractvalue':
            e = s.cexpr(ins.a)
            t = ins.ty
            for i in ins.idx:
                tt = s.m.named[t.name] if isinstance(t, TNamed) else t
                if isinstance(tt, TStruct):
                    e += '.f%d' % i; t = tt.fields[i]
                else:
                    e += '.a[%d]' % i; t = tt.el
            out.append('  %s = %s;' % (R, e))
        elif op == 'insertvalue':
            out.append('  %s = %s;' % (R, s.cexpr(ins.a)))
            e = R; t = ins.ty
            for i in ins.idx:
                tt = s.m.named[t.name] if isinstance(t, TNamed) else t
                if isinstance(tt, TStruct):
                    e += '.f%d' % i; t = tt.fields[i]
                else:
                    e += '.a[%d]' % i; t = tt.el
            out.append('  %s = %s;' % (e, s.cexpr(ins.e)))
        elif op == 'atomicrmw':
            a = s.cexpr(ins.a); v = s.cexpr(ins.v)
            o = {'add': '+', 'sub': '-', 'and': '&', 'or': '|', 'xor': '^'}.get(ins.rop)
            out.append('  __CPROVER_atomic_begin();')
            out.append('  %s = *%s;' % (R, a))
            if ins.rop == 'xchg':
                out.append('  *%s = %s;' % (a, v))
            else:
                out.append('  *%s = %s;' % (a, s.bin_expr({'+': 'add', '-': 'sub', '&': 'and', '|': 'or', '^': 'xor'}[o], ins.ty, R, v)))
            out.append('  __CPROVER_atomic_end();')
        elif op == 'cmpxchg':
            a = s.cexpr(ins.a)
            out.append('  __CPROVER_atomic_begin();')
            out.append('  %s.f0 = *%s; %s.f1 = (%s.f0 == %s);' % (R, a, R, R, s.cexpr(ins.cmp)))
            out.append('  if (%s.f1) *%s = %s;' % (R, a, s.cexpr(ins.new)))
            out.append('  __CPROVER_atomic_end();')
        elif op == 'fence':
            out.append('  __CPROVER_fence("WWfence","RRfence","RWfence","WRfence");' if False else '  ;')
        else:
            raise NotImplementedError(op)

    INTRINSIC_SKIP = ('llvm.lifetime.', 'llvm.dbg.', 'llvm.experimental.noalias', 'llvm.assume', 'llvm.stackrestore', 'llvm.va_end', 'llvm.invariant')

    def emit_call(s, f, lbl, ins, out):
        callee = ins.callee
        cname = callee.name[1:] if callee.kind == 'glob' else None
        R = s.lname(ins.res) if ins.res else None
        args = [(t, s.cexpr(a), info) for (t, a, info) in ins.args if a is not None]
        done = False
        if cname and cname.startswith('llvm.'):
            done = True
            if any(cname.startswith(x) for x in s.INTRINSIC_SKIP):
                pass
            elif cname.startswith('llvm.memcpy') or cname.startswith('llvm.memmove'):
                fn = 'memcpy' if 'memcpy' in cname else 'memmove'
                out.append('  if (%s != 0) %s(%s, %s, %s);' % (args[2][1], fn, args[0][1], args[1][1], args[2][1]))
            elif cname.startswith('llvm.memset'):
                out.append('  if (%s != 0) memset(%s, %s, %s);' % (args[2][1], args[0][1], args[1][1], args[2][1]))
            elif cname.startswith('llvm.umax'):
                out.append('  %s = %s > %s ? %s : %s;' % (R, args[0][1], args[1][1], args[0][1], args[1][1]))
            elif cname.startswith('llvm.umin'):
                out.append('  %s = %s < %s ? %s : %s;' % (R, args[0][1], args[1][1], args[0][1], args[1][1]))
            elif cname.startswith('llvm.smax') or cname.startswith('llvm.smin'):
                t = ins.rty; o = '>' if 'smax' in cname else '<'
                out.append('  %s = %s %s %s ? %s : %s;' % (R, s.sx(t, args[0][1]), o, s.sx(t, args[1][1]), args[0][1], args[1][1]))
            elif cname.startswith('llvm.abs'):
                t = ins.rty
                out.append('  %s = %s < 0 ? (%s)(0 - %s) : %s;' % (R, s.sx(t, args[0][1]), s.ctype(t), args[0][1], args[0][1]))
            elif cname.startswith('llvm.fshl'):
                t = ins.rty; w = t.bits; ct = s.ctype(t)
                a, b, c = args[0][1], args[1][1], args[2][1]
                out.append('  { %s sh__ = %s %% %d; %s = sh__ ? (%s)((%s << sh__) | (%s >> (%d - sh__))) : %s; }' % (ct, c, w, R, ct, a, b, w, a))
            elif cname.startswith('llvm.fshr'):
                t = ins.rty; w = t.bits; ct = s.ctype(t)
                a, b, c = args[0][1], args[1][1], args[2][1]
                out.append('  { %s sh__ = %s %% %d; %s = sh__ ? (%s)((%s >> sh__) | (%s << (%d - sh__))) : %s; }' % (ct, c, w, R, ct, b, a, w, b))
            elif cname.startswith('llvm.bswap'):
                t = ins.rty
                out.append('  %s = __builtin_bswap%d(%s);' % (R, t.bits, args[0][1]))
            elif cname.startswith('llvm.ctlz') or cname.startswith('llvm.cttz') or cname.startswith('llvm.ctpop'):
                out.append('  %s = __vp_%s%d(%s);' % (R, cname.split('.')[1], ins.rty.bits, args[0][1]))
            elif cname.startswith('llvm.eh.typeid.for'):
                tid = s.typeinfo_id(ins.args[0][1])
                out.append('  %s = %d;' % (R, tid))
            elif cname.startswith('llvm.trap'):
                out.append('  __vp_trap();')
            elif cname.startswith('llvm.stacksave'):
                out.append('  %s = (u8*)0;' % R)
            elif cname.startswith('llvm.fabs'):
                out.append('  %s = %s < 0 ? -%s : %s;' % (R, args[0][1], args[0][1], args[0][1]))
            elif cname.startswith('llvm.va_start'):
                out.append('  __vp_unmodelled("va_start");')
            elif cname.startswith('llvm.uadd.with.overflow') or cname.startswith('llvm.umul.with.overflow') or cname.startswith('llvm.usub.with.overflow'):
                t = ins.rty.fields[0]; ct = s.ctype(t)
                a, b = args[0][1], args[1][1]
                if 'uadd' in cname:
                    out.append('  %s.f0 = (%s)(%s + %s); %s.f1 = %s.f0 < %s;' % (R, ct, a, b, R, R, a))
                elif 'usub' in cname:
                    out.append('  %s.f0 = (%s)(%s - %s); %s.f1 = %s < %s;' % (R, ct, a, b, R, a, b))
                else:
                    out.append('  %s.f0 = (%s)(%s * %s); %s.f1 = (%s != 0 && %s.f0 / %s != %s);' % (R, ct, a, b, R, a, R, a, b))
            else:
                raise NotImplementedError('intrinsic ' + cname)
        if cname and cname.startswith('__CPROVER_'):
            done = True
            if cname == '__CPROVER_assert':
                msg = 'assertion'
                c = ins.args[1][1]
                while c.kind in ('gep', 'cast'):
                    c = c.base if c.kind == 'gep' else c.src
                if c.kind == 'glob' and c.name in s.m.globals and s.m.globals[c.name]['init'] is not None and s.m.globals[c.name]['init'].kind == 'cstr':
                    raw = s.m.globals[c.name]['init'].v[2:-1]
                    msg = re.sub(r'\\[0-9A-Fa-f]{2}', '', raw)
                    msg = re.sub(r'[^A-Za-z0-9_ .:=<>+-]', '_', msg)
                out.append('  __CPROVER_assert(%s, "%s");' % (args[0][1], msg))
            else:
                call = '%s(%s)' % (cname, ', '.join(a[1] for a in args))
                out.append('  ' + (('%s = %s;' % (R, call)) if R and not isinstance(ins.rty, TVoid) else call + ';'))
        if not done:
            # byval handling: copy
            pre = []
            argv = []
            for i, (t, e, info) in enumerate(args):
                if 'byval' in info:
                    bt = info['byval']; ct = s.ctype(bt)
                    tmp = 'bv%d__' % i
                    pre.append('%s *%s = (%s*)__vp_alloca(sizeof(%s)); *%s = *%s;' % (ct, tmp, ct, ct, tmp, e))
                    argv.append(tmp)
                else:
                    argv.append(e)
            if cname:
                target = s.gname(callee.name)
                s.called.add(callee.name)
                # cast args if prototype known & differs? rely on identical types
                fdef = s.m.funcs.get(callee.name) or s.m.decls.get(callee.name)
                is_ext = callee.name not in s.m.funcs or sanitize(callee.name) in s.stub_names
                if is_ext:
                    argv = ['(void*)%s' % a if isinstance(t, TPtr) else a for (a, (t, _, _)) in zip(argv, args)]
                elif fdef is not None and not fdef.vararg and len(fdef.params) == len(argv):
                    argv = ['(%s)%s' % (s.ctype(pt), a) if isinstance(pt, TPtr) else a for (a, (pt, _, _)) in zip(argv, fdef.params)]
                call = '%s(%s)' % (target, ', '.join(argv))
                if is_ext and isinstance(ins.rty, TPtr):
                    call = '(%s)%s' % (s.ctype(ins.rty), call)
            else:
                # indirect
                fty = ins.fty or TFunc(ins.rty, [t for (t, _, _) in args], False)
                fpt = s.ctype(TPtr(fty))
                call = '((%s)%s)(%s)' % (fpt, s.cexpr(callee), ', '.join(argv))
            line = ('%s = %s;' % (R, call)) if R and not isinstance(ins.rty, TVoid) else (call + ';')
            if R and isinstance(ins.rty, TInt) and ins.rty.bits == 1 and (cname is not None and ('@' + cname) in s.m.decls):
                # an external function returning i1 (e.g. nondet_bool) is declared u8 in C: keep only the defined bit
                post_mask = '  %s &= 1;' % R
            else: post_mask = None
            if pre:
                out.append('  { ' + ' '.join(pre) + ' ' + line + ' }')
            else:
                out.append('  ' + line)
            if post_mask: out.append(post_mask)
        # exception propagation
        nounwind = s.fn_is_nounwind(ins.groups, callee.name if cname else None) or (cname and cname.startswith('llvm.'))
        if ins.op == 'invoke':
            if nounwind:
                s.goto(f, lbl, ins.normal, out)
            else:
                out.append('  if (__vp_exc_active) {')
                s.goto(f, lbl, ins.unwind, out, '    ')
                out.append('  }')
                s.goto(f, lbl, ins.normal, out)
        else:
            if not nounwind:
                out.append('  if (__vp_exc_active) { %s }' % s.default_ret(f.ret))

    # --- module
    def emit(s, roots=None):
        m = s.m
        s.used_globals = set()
        s.called = set()
        body = []
        # decide which functions to emit: reachable from roots
        fn_out = {}
        work = list(roots) if roots else list(m.funcs.keys())
        seen = set()
        while work:
            n = work.pop()
            if n in seen: continue
            seen.add(n)
            while n in m.aliases and m.aliases[n].kind == 'glob':
                n = m.aliases[n].name
                seen.add(n)
            if n in m.funcs and sanitize(n) not in s.stub_names:
                o = []
                s.used_globals = set(); s.called = set()
                s.emit_function(m.funcs[n], o)
                fn_out[n] = o
                work.extend(s.called); work.extend(s.used_globals)
            elif n in m.globals:
                g = m.globals[n]
                s.used_globals = set()
                if g['init'] is not None:
                    g['_c'] = s.init_expr(g['init'])
                work.extend(s.used_globals)
        # global constructors
        ctor_fns = []
        g = m.globals.get('@llvm.global_ctors')
        if g is not None and g['init'] is not None and g['init'].kind == 'agg':
            for e in g['init'].els:
                c = e.els[1]
                while c.kind == 'cast': c = c.src
                if c.kind == 'glob': ctor_fns.append(c.name)
        if '@vp_global_ctors' in seen:
            for cf in ctor_fns:
                work.append(cf)
            while work:
                n = work.pop()
                if n in seen: continue
                seen.add(n)
                if n in m.funcs and sanitize(n) not in s.stub_names:
                    o = []
                    s.used_globals = set(); s.called = set()
                    s.emit_function(m.funcs[n], o)
                    fn_out[n] = o
                    work.extend(s.called); work.extend(s.used_globals)
                elif n in m.globals:
                    gg = m.globals[n]
                    s.used_globals = set()
                    if gg['init'] is not None:
                        gg['_c'] = s.init_expr(gg['init'])
                    work.extend(s.used_globals)
            fn_out['@vp_global_ctors'] = ['void vp_global_ctors(void) {'] + ['  %s();' % s.gname(cf) for cf in ctor_fns] + ['}', '']
            s.defined_here = {'@vp_global_ctors'}
        # assemble
        out = []
        out.append('/* generated by ir2c prototype */')
        out.append('#include "vp_rt.h"')
        # global decls & function protos first need types: emit after collecting
        protos = []
        gdefs = []
        for n in seen:
            if n in m.funcs and sanitize(n) not in s.stub_names:
                protos.append(s.proto(m.funcs[n]) + ';')
            elif n in m.funcs or n in m.decls:
                fd = m.funcs.get(n) or m.decls.get(n)
                if n[1:].startswith('llvm.') or n[1:].startswith('__CPROVER_'): continue
                if n == '@vp_global_ctors': protos.append('void vp_global_ctors(void);'); continue
                protos.append(s.ext_proto(fd) + ';  /* external/stub */')
                s.externs = getattr(s, 'externs', []); s.externs.append(n)
        for n in seen:
            if n in m.globals:
                g = m.globals[n]
                ct = s.ctype(g['type'])
                if g['init'] is None:
                    gdefs.append('extern %s %s;' % (ct, s.gname(n)))
                else:
                    gdefs.append('%s %s = %s;' % (ct, s.gname(n), g['_c']))
        out.extend(s.struct_fwd_unique())
        out.extend(s.render_typedefs())
        out.append('')
        # forward-declare globals (as extern) so initializers can reference each other
        for n in seen:
            if n in m.globals:
                out.append('extern %s %s;' % (s.ctype(m.globals[n]['type']), s.gname(n)))
        out.extend(protos)
        out.append('')
        out.extend(gdefs)
        out.append('')
        for n, o in fn_out.items():
            out.extend(o)
        # typeinfo table
        out.append('/* typeinfo ids: %s */' % ', '.join('%s=%d' % (k, v) for k, v in s.typeinfo_ids.items()))
        return '\n'.join(out) + '\n', [n for n in seen if (n in m.decls) and not n[1:].startswith('llvm.')]

    def struct_fwd_unique(s):
        seen = []
        for x in s.struct_fwd:
            if x not in seen: seen.append(x)
        return seen

    def render_typedefs(s):
        for nm in list(s.m.named):
            if ('n', nm) in s.tnames:
                s.define_body(TNamed(nm))
        return s.tlines

def main():
    import argparse
    ap = argparse.ArgumentParser()
    ap.add_argument('ll'); ap.add_argument('-o', default='-')
    ap.add_argument('--root', action='append', default=[])
    ap.add_argument('--stub', action='append', default=[])
    a = ap.parse_args()
    m = parse_module(open(a.ll).read())
    roots = None
    if a.root:
        roots = ['@' + r for r in a.root]
    em = Emitter(m, {'stubs': a.stub})
    code, ext = em.emit(roots)
    if a.o == '-': sys.stdout.write(code)
    else: open(a.o, 'w').write(code)
    sys.stderr.write('externals: ' + ' '.join(sorted(x[1:] for x in ext)) + '\n')

if __name__ == '__main__':
    main()
