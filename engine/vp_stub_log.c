#include "vp_rt.h"
void LogPrintfFunc(u8 *a0, u8 *a1, u8 *a2, u32 a3, u32 a4, u32 a5, u8 *a6, ...) { }
