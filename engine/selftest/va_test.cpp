#include "vp.h"
#include <stdarg.h>
static long sum(int n, ...) { va_list ap; va_start(ap, n); long s = 0; for (int i = 0; i < n; i++) { if (i & 1) s += va_arg(ap, long); else s += va_arg(ap, int); } const char *p = va_arg(ap, const char *); s += p[0]; va_end(ap); return s; }
extern "C" void h_va() { unsigned char a = nondet_uchar(); long r = sum(3, (int)a, 1000000000000L, -5, "A"); VP_ASSERT(r == (long)a + 1000000000000L - 5 + 65, "va sum"); VP_REACH("va"); }
