// engine self-test: std::map / std::set on the engine's unbalanced red-black-tree models must behave like the real containers.
// Runs natively (reference) and in symir (concrete mode); the driver compares nothing but the assertion outcome.
#include "vp.h"
#include <map>
#include <set>
extern "C" void h_map_selftest() {
    // deterministic pseudo-random operation sequence, checked against a plain array model
    std::map<int, int> m; bool present[16]; int val[16];
    for (int i = 0; i < 16; i++) present[i] = false;
    unsigned x = 12345;
    for (int step = 0; step < 400; step++) {
        x = x * 1103515245u + 12345u; unsigned op = (x >> 16) % 3; int k = (x >> 20) % 16;
        if (op == 0) { m[k] = step; present[k] = true; val[k] = step; }
        else if (op == 1) { size_t n = m.erase(k); VP_ASSERT(n == (present[k] ? 1u : 0u), "erase count"); present[k] = false; }
        else { auto it = m.find(k); VP_ASSERT((it != m.end()) == present[k], "find"); if (present[k]) VP_ASSERT(it->second == val[k], "value"); }
        size_t cnt = 0; for (int i = 0; i < 16; i++) cnt += present[i];
        VP_ASSERT(m.size() == cnt, "size");
        int prev = -1; size_t seen = 0;
        for (auto &kv : m) { VP_ASSERT(kv.first > prev && present[kv.first] && kv.second == val[kv.first], "in-order iteration"); prev = kv.first; seen++; }
        VP_ASSERT(seen == cnt, "iteration count");
        if (!m.empty()) { auto last = m.end(); --last; int mx = -1; for (int i = 0; i < 16; i++) if (present[i]) mx = i; VP_ASSERT(last->first == mx, "rightmost"); }
        // erase through iterator while iterating
        if (step % 37 == 36) { for (auto it = m.begin(); it != m.end();) { if (it->first % 2) { present[it->first] = false; it = m.erase(it); } else ++it; } }
    }
    VP_REACH("map_selftest");
}
