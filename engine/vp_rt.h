#ifndef VP_RT_H
#define VP_RT_H
typedef unsigned char u8; typedef unsigned short u16; typedef unsigned int u32; typedef unsigned long u64;
typedef signed char i8; typedef short i16; typedef int i32; typedef long i64;
typedef unsigned __int128 u128; typedef __int128 i128;
void *memcpy(void*, const void*, unsigned long); void *memmove(void*, const void*, unsigned long); void *memset(void*, int, unsigned long);
void *memmove(void*, const void*, unsigned long);
void *memset(void*, int, unsigned long);
void *malloc(unsigned long); void free(void*);
extern int __vp_exc_active; extern void *__vp_exc_obj; extern void *__vp_exc_type;
int __vp_exc_match(void *thrown, int id);
#define __vp_catchall_id 9999
void *__vp_alloca(unsigned long n);
void __vp_unreachable(void);
void __vp_trap(void);
void __vp_unmodelled(const char*);
#endif
