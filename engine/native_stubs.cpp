// Native-replay counterparts of the engine models that have no libc/libstdc++ implementation to fall back on.
// All weak, so a harness that includes the real definition wins.
#include <cstdarg>
extern "C" __attribute__((weak)) void LogPrintfFunc(const char *, const char *, const char *, int, int, bool, const char *, ...) {}
