#include "vp_rt.h"
/* ---- pthread mutex: first word is the lock flag */
u32 pthread_mutex_lock(void *m) { u32 *w = m; __CPROVER_atomic_begin(); __CPROVER_assume(*w == 0); *w = 1; __CPROVER_atomic_end(); return 0; }
u32 pthread_mutex_unlock(void *m) { u32 *w = m; __CPROVER_atomic_begin(); *w = 0; __CPROVER_atomic_end(); return 0; }
u32 pthread_mutex_trylock(void *m) { u32 *w = m; u32 r; __CPROVER_atomic_begin(); if (*w == 0) { *w = 1; r = 0; } else r = 16; __CPROVER_atomic_end(); return r; }
/* ---- condition variable with lost-wake-up semantics: word0 = #waiting, word1 = #pending wake-ups */
void _ZNSt18condition_variableC1Ev(void *cv) { u32 *c = cv; c[0] = 0; c[1] = 0; }
void _ZNSt18condition_variableD1Ev(void *cv) { }
void _ZNSt18condition_variable10notify_allEv(void *cv) { u32 *c = cv; __CPROVER_atomic_begin(); c[1] += c[0]; c[0] = 0; __CPROVER_atomic_end(); }
void _ZNSt18condition_variable10notify_oneEv(void *cv) { u32 *c = cv; __CPROVER_atomic_begin(); if (c[0] > 0) { c[0]--; c[1]++; } __CPROVER_atomic_end(); }
typedef struct { void *mutex; u8 owns; } vp_ulock;
void _ZNSt18condition_variable4waitERSt11unique_lockISt5mutexE(void *cv, void *lk) {
  u32 *c = cv; vp_ulock *l = lk;
  __CPROVER_atomic_begin(); *(u32*)l->mutex = 0; c[0]++; __CPROVER_atomic_end();
  __CPROVER_atomic_begin(); __CPROVER_assume(c[1] > 0); c[1]--; __CPROVER_atomic_end();
  pthread_mutex_lock(l->mutex);
}
_Bool nondet_bool(void);
u32 pthread_cond_clockwait(void *cv, void *m, u32 clk, void *ts) {
  u32 *c = cv; u32 r;
  __CPROVER_atomic_begin(); *(u32*)m = 0; c[0]++; __CPROVER_atomic_end();
  __CPROVER_atomic_begin();
  if (c[1] > 0 && nondet_bool()) { c[1]--; r = 0; }
  else { /* timeout: withdraw from the wait set if still in it */ if (c[0] > 0 && c[1] == 0) c[0]--; else if (c[1] > 0) c[1]--; r = 110; }
  __CPROVER_atomic_end();
  pthread_mutex_lock(m);
  return r;
}
/* ---- clock: arbitrary non-decreasing */
static u64 vp_now; u64 nondet_u64(void);
u64 _ZNSt6chrono3_V212steady_clock3nowEv(void) { u64 d = nondet_u64(); __CPROVER_assume(d < 1000000000000UL); __CPROVER_atomic_begin(); vp_now += d; u64 r = vp_now; __CPROVER_atomic_end(); return r; }
/* ---- threads */
#define VP_MAXT 4
static u32 vp_nthreads; static u8 vp_finished[VP_MAXT + 1];
typedef void (*vp_run_t)(void*);
static void vp_thread_main(void *state, u32 id) {
  vp_run_t *vt = *(vp_run_t**)state;     /* _State vtable: [D1, D0, _M_run] */
  vt[2](state);
  __CPROVER_atomic_begin(); vp_finished[id] = 1; __CPROVER_atomic_end();
}
void _ZNSt6thread15_M_start_threadESt10unique_ptrINS_6_StateESt14default_deleteIS1_EEPFvvE(void *thr, void *uptr, void *dep) {
  void **up = uptr; void *state = *up; *up = 0;
  u32 id; __CPROVER_atomic_begin(); id = ++vp_nthreads; __CPROVER_atomic_end();
  __CPROVER_assert(id <= VP_MAXT, "thread bound");
  *(u64*)thr = id;
  __CPROVER_ASYNC_1: vp_thread_main(state, id);
}
void _ZNSt6thread4joinEv(void *thr) {
  u64 id = *(u64*)thr;
  if (id == 0) { __vp_exc_active = 1; return; }
  __CPROVER_atomic_begin(); __CPROVER_assume(vp_finished[id]); __CPROVER_atomic_end();
  *(u64*)thr = 0;
}
void _ZNSt6thread6_StateD2Ev(void *s) { }
void _ZSt20__throw_system_errori(u32 e) { __vp_exc_active = 1; }
void _ZSt16__throw_bad_castv(void) { __vp_exc_active = 1; }
