#!/usr/bin/env python3
"""
vpdrv: driver shared by every property check.

  harness.cpp (#includes the real /repo sources) --clang++-14 -O1 -emit-llvm--> .ll
     engine A: ir2c -> C -> cbmc (SAT / cvc5 bv-as-int shim / z3)      [job.engine == 'A']
     engine B: symir path-wise symbolic interpreter (z3)               [job.engine == 'B']
  counterexample -> native replay (g++ -fsanitize=address,undefined, engine/replay_rt.cpp)

Exit codes of a check: 0 = every obligation discharged (known findings are printed, not failed),
1 = VIOLATION (line printed), 2 = inconclusive / engine error (never success).
"""
import os, sys, json, re, time, subprocess, shutil, tempfile, hashlib, resource, fnmatch
from concurrent.futures import ThreadPoolExecutor, as_completed

VERIF = os.path.dirname(os.path.dirname(os.path.abspath(__file__)))
REPO = os.environ.get('VP_REPO', '/repo')
ENGINE = os.path.join(VERIF, 'engine')
PY = shutil.which('python3-vt') or sys.executable
GUARD = 'CPP_MAIN_CPP_TBOX_VERIF'
NCPU = int(os.environ.get('VP_JOBS', str(os.cpu_count() or 8)))

CLANG_FLAGS = ['-std=c++11', '-O1', '-fno-vectorize', '-fno-slp-vectorize', '-fno-unroll-loops', '-fno-access-control',
               '-DNDEBUG', '-D' + GUARD, '-w', '-I' + os.path.join(REPO, 'modules'), '-I' + os.path.join(REPO, '3rd-party'),
               '-I' + os.path.join(VERIF, 'harness')]
CBMC_FLAGS = ['--unwinding-assertions', '--signed-overflow-check', '--undefined-shift-check',
              '--drop-unused-functions', '--json-ui', '--trace', '--verbosity', '4']


class Job:
    """One harness instance = one solver obligation bundle."""
    def __init__(s, name, src, entry, engine, defs=None, tier='quick', unwind=None, unwindset=None, backend='cadical',
                 timeout=600, reach=(), opts=None, clause='', nlabel=None, flags=(), expect_fail=(), replay=True, objbits=None):
        s.name = name; s.src = src; s.entry = entry; s.engine = engine; s.defs = dict(defs or {}); s.tier = tier
        s.unwind = unwind; s.unwindset = unwindset; s.backend = backend; s.timeout = timeout; s.reach = tuple(reach)
        s.opts = dict(opts or {}); s.clause = clause; s.flags = tuple(flags); s.replay = replay; s.objbits = objbits
    def key(s):
        return hashlib.sha1(json.dumps([s.src, sorted(s.defs.items()), s.flags, s.engine == 'B'], sort_keys=True).encode()).hexdigest()[:12]


def sh(cmd, timeout=None, cwd=None, env=None, inp=None):
    """run a command in its own process group; on timeout the whole group is killed (cbmc leaves its SMT solver child behind otherwise)"""
    import signal
    t0 = time.time()
    p = subprocess.Popen(cmd, stdout=subprocess.PIPE, stderr=subprocess.PIPE, stdin=subprocess.PIPE if inp is not None else None, cwd=cwd, env=env, start_new_session=True)
    try:
        out, err = p.communicate(input=inp, timeout=timeout)
        return p.returncode, out.decode(errors='replace'), err.decode(errors='replace'), time.time() - t0
    except subprocess.TimeoutExpired:
        try: os.killpg(p.pid, signal.SIGKILL)
        except Exception: pass
        try: out, err = p.communicate(timeout=10)
        except Exception: out, err = b'', b''
        return -9, (out or b'').decode(errors='replace'), 'TIMEOUT', time.time() - t0


def src_path(job):
    return job.src if os.path.isabs(job.src) else os.path.join(VERIF, 'harness', job.src)


def build_ll(job, scratch):
    ll = os.path.join(scratch, 'll_%s.ll' % job.key())
    if os.path.exists(ll): return ll, None
    defs = ['-D%s=%s' % kv if kv[1] is not None else '-D%s' % kv[0] for kv in job.defs.items()]
    if job.engine == 'B': defs.append('-DSYMIR')
    cmd = ['clang++-14'] + CLANG_FLAGS + list(job.flags) + defs + ['-S', '-emit-llvm', '-o', ll + '.tmp', src_path(job)]
    rc, out, err, dt = sh(cmd, timeout=300)
    if rc != 0:
        return None, 'clang failed: ' + err[-2000:]
    os.rename(ll + '.tmp', ll)
    return ll, None


def cvc5_shim_dir(scratch):
    d = os.path.join(scratch, 'shim')
    if not os.path.isdir(d):
        os.makedirs(d, exist_ok=True)
        p = os.path.join(d, 'cvc5')
        real = '/usr/bin/cvc5'
        open(p, 'w').write('#!/bin/sh\nexec %s --solve-bv-as-int=sum "$@"\n' % real)
        os.chmod(p, 0o755)
    return d


def run_A(job, scratch):
    res = {'name': job.name, 'engine': 'A', 'clause': job.clause, 'status': 'error', 'violations': [], 'queries': 0, 'solver_s': 0.0}
    ll, err = build_ll(job, scratch)
    if err: res['reason'] = err; return res
    cfile = os.path.join(scratch, 'c_%s_%s.c' % (job.key(), job.entry))
    if not os.path.exists(cfile):
        rc, out, err, dt = sh([PY, os.path.join(ENGINE, 'ir2c.py'), ll, '--root', job.entry, '-o', cfile], timeout=300)
        if rc != 0:
            res['reason'] = 'ir2c failed: ' + err[-1500:]; res['status'] = 'inconclusive'; return res
        res['externals'] = err.strip().replace('externals: ', '').split()
    csrc = open(cfile).read()
    res['functions'] = sorted(set(re.findall(r'^[a-zA-Z_][\w \*]*?\b(_Z\w+|%s)\(' % re.escape(job.entry), csrc, re.M)))[:200]
    res['c_lines'] = csrc.count('\n')
    nd_lines = {}
    for i, line in enumerate(csrc.split('\n'), 1):
        m = re.match(r'\s*(\w+) = nondet_(uchar|ushort|uint|ulong|bool)\(\);(\s*\w+ &= 1;)?\s*$', line)
        if m: nd_lines[i] = m.group(1)
    cmd = ['cbmc', cfile, os.path.join(ENGINE, 'vp_models.c'), '-I', ENGINE, '--function', job.entry] + CBMC_FLAGS
    if job.unwindset: cmd += ['--unwindset', job.unwindset]
    if job.unwind: cmd += ['--unwind', str(job.unwind)]
    if job.objbits: cmd += ['--object-bits', str(job.objbits)]
    env = dict(os.environ)
    be = job.backend
    if be == 'cadical': cmd += ['--sat-solver', 'cadical']
    elif be == 'kissat': cmd += ['--external-sat-solver', 'kissat']
    elif be == 'cvc5':
        cmd += ['--cvc5', '--slice-formula']; env['PATH'] = cvc5_shim_dir(scratch) + ':' + env['PATH']
    elif be == 'z3': cmd += ['--z3']
    res['backend'] = be
    res['cmd'] = ' '.join(cmd[:1] + ['<generated.c>', 'vp_models.c'] + cmd[3:])
    rc, out, err, dt = sh(cmd, timeout=job.timeout, env=env)
    res['wall_s'] = dt
    if rc == -9:
        res['status'] = 'inconclusive'; res['reason'] = 'cbmc timeout after %ds' % job.timeout; return res
    try:
        js = json.loads(out)
    except Exception as e:
        res['status'] = 'inconclusive'; res['reason'] = 'cbmc output not JSON (rc=%d): %s' % (rc, (out[-800:] + err[-800:])); return res
    results = None; msgs = []
    for item in js:
        if 'result' in item: results = item['result']
        if 'messageText' in item: msgs.append(item['messageText'])
        if 'cProverStatus' in item: res['cprover_status'] = item['cProverStatus']
    for mtxt in msgs:
        mm = re.search(r'Runtime Solver: ([\d.e+-]+)s', mtxt)
        if mm: res['solver_s'] += float(mm.group(1))
        mm = re.search(r'(\d+) variables, (\d+) clauses', mtxt)
        if mm: res['vars'] = int(mm.group(1)); res['clauses'] = int(mm.group(2))
    if results is None:
        res['status'] = 'inconclusive'; res['reason'] = 'cbmc gave no result (rc=%d): %s' % (rc, ' | '.join(msgs[-6:])[-1500:]); return res
    res['queries'] = len(results)
    reached = set(); fails = []; unknown = []; ub_notes = []
    nobody = [m for m in msgs if 'no body for' in m]
    for r in results:
        desc = r.get('description', ''); status = r.get('status')
        if desc.startswith('WITNESS:'):
            if status == 'FAILURE': reached.add(desc[8:])
            continue
        if status == 'FAILURE' and (desc.startswith('unwinding assertion') or 'recursion unwinding' in desc):
            unknown.append('%s: loop bound too small (%s)' % (r.get('property'), desc)); continue
        if status == 'FAILURE' and desc.startswith('pointer arithmetic:'):
            # forming (not dereferencing) an out-of-bounds pointer: standard-level UB no sanitizer confirms; listed separately, never a VIOLATION
            ub_notes.append('%s in %s' % (desc, r.get('sourceLocation', {}).get('function'))); continue
        if status == 'FAILURE':
            vals = []
            for stp in r.get('trace', []):
                if stp.get('stepType') == 'assignment':
                    ln = stp.get('sourceLocation', {}).get('line')
                    try: ln = int(ln)
                    except Exception: continue
                    if ln in nd_lines and stp.get('lhs') == nd_lines[ln] and stp.get('sourceLocation', {}).get('file', '').endswith(os.path.basename(cfile)):
                        v = stp.get('value', {})
                        d = v.get('data')
                        if d is None: continue
                        if isinstance(d, str) and d.upper() in ('TRUE', 'FALSE'): d = 1 if d.upper() == 'TRUE' else 0
                        try: vals.append(int(d) & ((1 << 64) - 1))
                        except Exception:
                            try: vals.append(int(v.get('binary', '0'), 2))
                            except Exception: vals.append(0)
            loc = r.get('sourceLocation', {})
            fails.append({'msg': desc, 'property': r.get('property'), 'values': vals, 'function': loc.get('function'), 'c_line': loc.get('line')})
        elif status != 'SUCCESS':
            unknown.append('%s:%s' % (r.get('property'), status))
    res['reached'] = sorted(reached); res['ub_notes'] = sorted(set(ub_notes))
    res['n_success'] = sum(1 for r in results if r.get('status') == 'SUCCESS')
    if nobody:
        res['status'] = 'inconclusive'; res['reason'] = 'unmodelled external reached: ' + '; '.join(nobody[:4]); return res
    missing = [t for t in job.reach if t not in reached]
    res['violations'] = fails
    if fails: res['status'] = 'violation'
    elif unknown: res['status'] = 'inconclusive'; res['reason'] = 'properties without verdict: %s' % unknown[:5]
    elif missing: res['status'] = 'inconclusive'; res['reason'] = 'vacuity: witness not reachable: %s' % missing
    else: res['status'] = 'pass'
    return res


def run_B(job, scratch):
    res = {'name': job.name, 'engine': 'B', 'clause': job.clause, 'status': 'error', 'violations': [], 'queries': 0, 'solver_s': 0.0}
    ll, err = build_ll(job, scratch)
    if err: res['reason'] = err; return res
    outj = os.path.join(scratch, 'b_%s_%s_%s.json' % (job.key(), job.entry, hashlib.sha1(job.name.encode()).hexdigest()[:6]))
    cmd = [PY, os.path.join(ENGINE, 'symir.py'), ll, job.entry, '--json', outj, '--budget', str(job.timeout)]
    for k, v in job.opts.items(): cmd += ['--' + k, str(v)]
    res['cmd'] = 'symir.py <harness.ll> %s %s' % (job.entry, ' '.join('--%s %s' % kv for kv in job.opts.items()))
    rc, out, err, dt = sh(cmd, timeout=job.timeout + 120)
    res['wall_s'] = dt
    if not os.path.exists(outj):
        res['status'] = 'inconclusive'; res['reason'] = 'symir crashed/timeout rc=%d: %s' % (rc, (err or out)[-1500:]); return res
    js = json.load(open(outj))
    st = js.get('stats', {})
    res.update({'queries': st.get('solver_calls', 0), 'solver_s': st.get('solver_time', 0.0), 'paths': st.get('paths', 0), 'instrs': st.get('instrs', 0),
                'asserts': st.get('asserts', 0), 'reached': js.get('reached', []), 'functions': js.get('functions', []), 'n_functions': js.get('n_functions', 0),
                'models_used': js.get('models_used', []), 'sample': js.get('sample'), 'passes': js.get('passes', 1), 'peak_rss_mb': js.get('peak_rss_mb'),
                'races': js.get('races', [])})
    if js.get('status') != 'ok':
        res['status'] = 'inconclusive'; res['reason'] = js.get('reason', '?')
        res['violations'] = js.get('violations', [])
        return res
    viol = list(js.get('violations', []))
    for r in js.get('races', []):
        viol.append({'msg': 'data race (no happens-before order): %s of object+%d in %s' % (r['kind'], r['offset'], r['fn']), 'values': None, 'race': True})
    res['violations'] = viol
    missing = [t for t in job.reach if t not in js.get('reached', [])]
    if viol: res['status'] = 'violation'
    elif missing: res['status'] = 'inconclusive'; res['reason'] = 'vacuity: witness not reached on any path: %s' % missing
    else: res['status'] = 'pass'
    return res


def native_replay(job, values, scratch, tag):
    """build the harness natively and run it on the solver's values. returns (verdict, text)"""
    exe = os.path.join(scratch, 'replay_%s_%s' % (job.key(), job.entry))
    if not os.path.exists(exe):
        defs = ['-D%s=%s' % kv if kv[1] is not None else '-D%s' % kv[0] for kv in job.defs.items()]
        cmd = ['g++', '-std=c++11', '-O1', '-g', '-fsanitize=address,undefined', '-fno-sanitize=nonnull-attribute', '-fno-sanitize-recover=undefined', '-fno-access-control', '-DNDEBUG', '-D' + GUARD, '-DVP_NATIVE', '-w',
               '-I' + os.path.join(REPO, 'modules'), '-I' + os.path.join(REPO, '3rd-party'), '-I' + os.path.join(VERIF, 'harness'),
               '-DVP_ENTRY=' + job.entry] + list(job.flags) + defs + [src_path(job), os.path.join(ENGINE, 'replay_rt.cpp'), os.path.join(ENGINE, 'native_stubs.cpp'), '-o', exe, '-lpthread']
        rc, out, err, dt = sh(cmd, timeout=600)
        if rc != 0: return 'unavailable', 'native build failed: ' + err[-1500:]
    vf = os.path.join(scratch, 'vals_%s.txt' % tag)
    open(vf, 'w').write('\n'.join(str(v) for v in (values or [])) + '\n')
    env = dict(os.environ); env['ASAN_OPTIONS'] = 'detect_leaks=0:abort_on_error=0:exitcode=66'; env['UBSAN_OPTIONS'] = 'print_stacktrace=1:halt_on_error=1:exitcode=67'
    rc, out, err, dt = sh([exe, vf], timeout=60, env=env)
    text = (out + err)[-3000:]
    if 'REPLAY-ASSUME-FAILED' in out: return 'assume-failed', text
    if rc == 0: return 'not-reproduced', text
    if rc == -9 or rc == -14 or 'Alarm clock' in text: return 'reproduced', 'hang (watchdog): ' + text
    return 'reproduced', text


def load_known():
    p = os.path.join(VERIF, 'known_findings.json')
    if not os.path.exists(p): return []
    return json.load(open(p)).get('findings', [])


def match_known(pid, job, v, known):
    for k in known:
        if k.get('property') != pid or k.get('status') != 'open': continue
        if not fnmatch.fnmatch(job.name, k.get('job', '*')): continue
        if not re.search(k.get('msg', '.*'), v.get('msg', '')): continue
        w = k.get('where')
        if w:
            hay = ' '.join((v.get('exc_where') or []) + (v.get('stack') or []) + [str(v.get('function') or '')])
            if not re.search(w, hay): continue
        return k
    return None


def run_check(pid, jobs, tier, meta):
    """meta: dict(title, explanation, assumptions, bounds, trusted_base)"""
    t0 = time.time()
    seed = int(os.environ.get('VERIF_SEED', '0') or 0)
    sel = [j for j in jobs if j.tier == 'quick' or tier == 'thorough']
    only = os.environ.get('VP_ONLY')
    if only: sel = [j for j in sel if fnmatch.fnmatch(j.name, only)]
    scratch = tempfile.mkdtemp(prefix='vp_%s_' % pid, dir=os.environ.get('TMPDIR', '/tmp'))
    keep = os.environ.get('VP_KEEP')
    known = load_known()
    results = []
    replay_dir = os.path.join(VERIF, 'replay'); os.makedirs(replay_dir, exist_ok=True)
    try:
        # build IR first (dedup), in parallel
        uniq = {}
        for j in sel: uniq.setdefault((j.key()), j)
        with ThreadPoolExecutor(NCPU) as ex:
            errs = list(ex.map(lambda j: build_ll(j, scratch), uniq.values()))
        with ThreadPoolExecutor(NCPU) as ex:
            futs = {ex.submit(run_A if j.engine == 'A' else run_B, j, scratch): j for j in sel}
            for f in as_completed(futs):
                j = futs[f]
                try: r = f.result()
                except Exception as e:
                    r = {'name': j.name, 'engine': j.engine, 'status': 'error', 'reason': 'driver exception: %r' % e, 'violations': []}
                r['job'] = j
                results.append(r)
                if os.environ.get('VP_VERBOSE'):
                    print('  [%s] %-40s %-12s %.1fs %s' % (j.engine, j.name, r['status'], r.get('wall_s', 0), r.get('reason', '')[:200]), flush=True)
        results.sort(key=lambda r: r['name'])
        # triage violations
        out_lines = []; n_viol = 0; n_known = 0; n_incon = 0; n_mismatch = 0
        vio_records = []
        for r in results:
            j = r['job']
            if r['status'] in ('inconclusive', 'error'):
                n_incon += 1
                out_lines.append('ERROR inconclusive job=%s reason=%s' % (j.name, r.get('reason', '?')[:600]))
            seen_sig = set()
            for idx, v in enumerate(r.get('violations', [])):
                sig = (v.get('msg'), tuple(v.get('exc_where') or []), v.get('function'))
                if sig in seen_sig: continue
                seen_sig.add(sig)
                k = match_known(pid, j, v, known)
                verdict, text = ('skipped', '')
                if j.replay and v.get('values') is not None and not v.get('race') and not v.get('schedule'):
                    verdict, text = native_replay(j, v['values'], scratch, '%s_%d' % (hashlib.sha1(j.name.encode()).hexdigest()[:8], idx))
                rec = {'property': pid, 'job': j.name, 'engine': j.engine, 'entry': j.entry, 'src': j.src, 'defs': j.defs, 'flags': list(j.flags), 'msg': v.get('msg'), 'values': v.get('values'),
                       'schedule': v.get('schedule'), 'exc_where': v.get('exc_where'), 'stack': v.get('stack'), 'function': v.get('function'),
                       'native_replay': verdict, 'native_output': text[-1500:], 'known': k.get('id') if k else None}
                vio_records.append(rec)
                if k:
                    n_known += 1
                    out_lines.append('KNOWN-FINDING: property=%s %s [job=%s: %s] (native replay: %s)' % (pid, k.get('what', k.get('id')), j.name, v.get('msg'), verdict))
                    continue
                if verdict in ('not-reproduced', 'assume-failed') and 'uninitialised' in (v.get('msg') or ''):
                    # reads of uninitialised memory are invisible to ASan/UBSan (MSan needs an instrumented libstdc++): reported on the engine's evidence
                    verdict = 'not-observable-natively (uninitialised read)'
                if verdict in ('not-reproduced', 'assume-failed'):
                    n_mismatch += 1
                    rp = os.path.join(replay_dir, '%s-%s-%d.json' % (pid, re.sub(r'\W+', '_', j.name), idx)); json.dump(rec, open(rp, 'w'), indent=1)
                    out_lines.append('ERROR engine-mismatch job=%s msg=%s native=%s (counterexample kept at %s)' % (j.name, v.get('msg'), verdict, rp))
                    continue
                n_viol += 1
                rp = os.path.join(replay_dir, '%s-%s-%d.json' % (pid, re.sub(r'\W+', '_', j.name), idx)); json.dump(rec, open(rp, 'w'), indent=1)
                out_lines.append('VIOLATION property=%s replay=%s   [job=%s: %s; native replay: %s]' % (pid, rp, j.name, v.get('msg'), verdict))
        # encoding validation: for a sample of jobs, the nondet values of one path the engine completed WITHOUT violation are replayed
        # against the native build of the same harness; the run must pass every assumption and assertion there too
        val = {'attempted': 0, 'agree': 0, 'disagree': []}
        if not os.environ.get('VP_NO_VALIDATE'):
            cands = [r for r in results if r['status'] == 'pass' and r.get('sample') is not None and r['job'].replay and 'preempt' not in r['job'].opts]
            step = max(1, len(cands) // 8)
            picked = cands[::step][:8]
            def _val(r):
                j = r['job']
                return j.name, native_replay(j, r['sample'], scratch, 'val_' + hashlib.sha1(j.name.encode()).hexdigest()[:8])
            with ThreadPoolExecutor(min(NCPU, 8)) as ex:
                for name, (verdict, text) in ex.map(_val, picked):
                    if verdict == 'unavailable': continue
                    val['attempted'] += 1
                    if verdict == 'not-reproduced' and 'REPLAY-OK' in text: val['agree'] += 1
                    else: val['disagree'].append({'job': name, 'native': verdict, 'output': text[-400:]})
            for d in val['disagree']:
                n_mismatch += 1
                out_lines.append('ERROR engine-mismatch job=%s a path the engine explored without violation does not replay cleanly natively (%s)' % (d['job'], d['native']))
        meta = dict(meta); meta['_validation'] = val
        wall = time.time() - t0
        write_evidence(pid, tier, seed, results, meta, wall, n_viol, n_known, vio_records)
        for l in out_lines: print(l)
        npass = sum(1 for r in results if r['status'] == 'pass')
        print('%s tier=%s jobs=%d pass=%d violations=%d known=%d inconclusive=%d mismatch=%d queries=%d solver=%.1fs wall=%.1fs' % (
            pid, tier, len(results), npass, n_viol, n_known, n_incon, n_mismatch, sum(r.get('queries', 0) for r in results), sum(r.get('solver_s', 0) for r in results), wall))
        if n_viol: return 1
        if n_incon or n_mismatch: return 2
        return 0
    finally:
        if not keep: shutil.rmtree(scratch, ignore_errors=True)
        else: print('scratch kept at', scratch)


def write_evidence(pid, tier, seed, results, meta, wall, n_viol, n_known, vio_records):
    jobs = []
    fnset = set(); models = set(); samples = []
    obligations = 0; discharged = 0; nontrivial = 0
    for r in results:
        j = r['job']
        nassert = r.get('n_success', 0) if r['engine'] == 'A' else r.get('asserts', 0) + r.get('paths', 0)
        obligations += max(nassert, 1)
        if r['status'] == 'pass': discharged += max(nassert, 1)
        witness_ok = bool(j.reach) and all(t in r.get('reached', []) for t in j.reach)
        if r['status'] in ('pass', 'violation') and witness_ok: nontrivial += 1
        fnset.update(r.get('functions', [])); models.update(r.get('models_used', [])); models.update(r.get('externals', []) or [])
        jobs.append({'job': j.name, 'engine': {'A': 'ir2c+cbmc', 'B': 'symir+z3'}[r['engine']], 'clause': j.clause, 'entry': j.entry, 'harness': j.src, 'config': j.defs,
                     'bounds': {'unwind': j.unwind, 'unwindset': j.unwindset, **j.opts}, 'backend': r.get('backend', 'z3'), 'status': r['status'], 'reason': r.get('reason'),
                     'queries': r.get('queries', 0), 'solver_s': round(r.get('solver_s', 0), 3), 'wall_s': round(r.get('wall_s', 0), 2), 'paths': r.get('paths'),
                     'asserts_checked': nassert, 'witness_reached': r.get('reached', []), 'witness_required': list(j.reach), 'peak_rss_mb': r.get('peak_rss_mb'),
                     'sat_vars': r.get('vars'), 'sat_clauses': r.get('clauses'), 'out_of_bounds_pointer_formation_notes': r.get('ub_notes', [])})
        if r.get('sample') and len(samples) < 6:
            samples.append({'job': j.name, 'nondet_values_of_one_explored_path': r['sample'][:40]})
    for rec in vio_records[:6]:
        samples.append({'job': rec['job'], 'counterexample': rec['msg'], 'values': (rec['values'] or [])[:40], 'native_replay': rec['native_replay'], 'known': rec['known']})
    if not samples:
        samples = [{'job': x['job'], 'config': x['config'], 'entry': x['entry'], 'clause': x['clause']} for x in jobs[:5]]
    ev = {
        'property_id': pid, 'tier': tier, 'seed': seed, 'level': 'other',
        'coverage': {
            'explanation': meta.get('explanation', ''),
            'evaluations': sum(r.get('queries', 0) for r in results),
            'distinct_nontrivial': nontrivial,
            'rule': 'evaluations = solver queries issued on this run (CBMC property instances + symir feasibility/assertion queries); distinct_nontrivial = distinct harness instances (harness x configuration) whose reachability witness was confirmed reached by the solver on this run and which ended with a verdict',
            'samples': samples,
            'obligations': obligations, 'discharged': discharged,
            'checker_cmd': './check %s --tier %s' % (pid, tier),
            'trusted_base': meta.get('trusted_base', []) + ['models used on this run: ' + ', '.join(sorted(models))[:3000]],
            'bounds': meta.get('bounds', ''), 'outside_bounds': meta.get('outside', ''),
            'functions_encoded_count': len(fnset), 'functions_encoded': sorted(fnset)[:300],
            'jobs': jobs, 'solver_time_s': round(sum(r.get('solver_s', 0) for r in results), 2),
            'known_findings_matched': n_known,
            'traces_validated_against_impl': meta.get('_validation', {}).get('agree', 0),
            'native_validation': meta.get('_validation', {}),
            'violation_records': [{k: v for k, v in rec.items() if k != 'native_output'} for rec in vio_records[:20]],
            'exhaustive': False,
        },
        'assumptions': meta.get('assumptions', []),
        'wall_s': round(wall, 2), 'violations': n_viol,
    }
    os.makedirs(os.path.join(VERIF, 'evidence'), exist_ok=True)
    json.dump(ev, open(os.path.join(VERIF, 'evidence', pid + '.json'), 'w'), indent=1, default=str)


def replay_file(path):
    rec = json.load(open(path))
    j = Job(rec['job'], rec['src'], rec['entry'], rec['engine'], defs=rec.get('defs'), flags=rec.get('flags', ()))
    scratch = tempfile.mkdtemp(prefix='vp_replay_')
    try:
        verdict, text = native_replay(j, rec.get('values'), scratch, 'r')
        print(text); print('native replay:', verdict)
        return 1 if verdict == 'reproduced' else 0
    finally:
        shutil.rmtree(scratch, ignore_errors=True)
